#!/bin/sh
# regenerates the test certificates (committed; 10 years validity)
set -e
cd "$(dirname "$0")"
mk_ca() { openssl req -x509 -newkey rsa:2048 -nodes -keyout $1.key -out $1.crt -days 3650 -subj "/CN=$2" -addext "basicConstraints=critical,CA:TRUE" -addext "keyUsage=critical,keyCertSign,cRLSign" 2>/dev/null; }
mk_leaf() { # name ca cn san
  openssl req -newkey rsa:2048 -nodes -keyout $1.key -out $1.csr -subj "/CN=$3" 2>/dev/null
  printf "subjectAltName=$4\nbasicConstraints=CA:FALSE\nkeyUsage=digitalSignature,keyEncipherment\nextendedKeyUsage=serverAuth,clientAuth\n" > $1.ext
  openssl x509 -req -in $1.csr -CA $2.crt -CAkey $2.key -CAcreateserial -out $1.crt -days 3650 -extfile $1.ext 2>/dev/null
  rm -f $1.csr $1.ext
}
mk_ca ca "verif test CA"
mk_ca foreignca "verif foreign CA"
mk_leaf server ca localhost "DNS:localhost,IP:127.0.0.1"
mk_leaf wrongname ca other.example "DNS:other.example"
mk_leaf foreignserver foreignca localhost "DNS:localhost,IP:127.0.0.1"
mk_leaf client ca client "DNS:client"
mk_leaf foreignclient foreignca client "DNS:client"
rm -f *.srl

#!/usr/bin/env python3
"""setup-time sanity: tools present, fixtures present."""
import os, shutil, sys
ROOT = os.path.dirname(os.path.dirname(os.path.abspath(__file__)))
ok = True
for t in ["java", "cargo", "python3"]:
    if not shutil.which(t):
        print("missing tool", t); ok = False
if not os.path.exists("/opt/veriftools/tla/tla2tools.jar"):
    print("missing tla2tools.jar"); ok = False
for d in ["evidence", "work"]:
    os.makedirs(os.path.join(ROOT, d), exist_ok=True)
sys.exit(0 if ok else 1)

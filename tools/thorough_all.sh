#!/bin/bash
# run every thorough tier one after the other (used from `vp run --with-repo`, isolated from later edits of /repo)
if [ -n "$VP_RUN_REPO" ]; then
  sed -i "s#/repo/milu#$VP_RUN_REPO/milu#" harness/Cargo.toml
  export RP_SRC=$VP_RUN_REPO
fi
for id in ${@:-C09 C08 C12 C03 C02 C15 C17 C11 C07 C18 C05 C06 C16 C01 C04 C13 C14 C10 C19}; do
  echo "=== $id $(date -u +%H:%M:%S)"
  timeout 5400 python3 tools/check.py $id --tier thorough 2>&1 | tail -12
  echo "=== $id exit=${PIPESTATUS[0]}"
done

"""Topologies and tunnel scenario execution for the black-box checks (C01, C04, C06, C13, C16, ...)."""
import json, os, threading, time, socket
import bb, vlib

LISTENER_PROTOS = ["http", "socks5", "socks4", "reverse"]
UPSTREAMS = ["direct", "uphttp", "upsocks5", "upsocks4"]
EXTRA_UPSTREAMS = ["upquic", "uptls", "uphttp6"]   # second hop over QUIC streams / a TLS-wrapped HTTP CONNECT / reached over IPv6
FX = bb.FIX


def yaml_list(items, indent=2):
    out = []
    for it in items:
        first = True
        for k, v in it.items():
            out.append(" " * indent + ("- " if first else "  ") + "%s: %s" % (k, json.dumps(v) if not isinstance(v, (int, bool)) else str(v).lower() if isinstance(v, bool) else v))
            first = False
    return "\n".join(out)


class Topology:
    """front proxy P1 (listeners: proto x upstream, routed by listener name) -> P2 (http + socks listeners, direct) -> origin"""

    def __init__(self, wd, name, splice=True, buffer=65536, idle=600, udp=600, history=100, log="warn", reverse_target=None,
                 extra_rules_first=None, special=False, p2_deny_port=0, access_log=None, fake=None):
        self.wd = wd
        self.name = name
        self.ports = {}
        self.api1 = bb.free_port()
        self.api2 = bb.free_port()
        self.p2_http = bb.free_port()
        self.p2_socks = bb.free_port()
        self.reverse_target = reverse_target
        ls = []
        self.p2_quic = bb.free_port(socket.SOCK_DGRAM)
        self.p2_https = bb.free_port()
        self.p2_http6 = bb.free_port(host="::1")
        for proto in LISTENER_PROTOS:
            for up in UPSTREAMS + EXTRA_UPSTREAMS:
                port = bb.free_port()
                self.ports[(proto, up)] = port
                lname = "%s_%s" % (proto, up)
                if proto == "reverse":
                    if reverse_target is None:
                        continue
                    ls.append({"name": lname, "type": "reverse", "bind": "127.0.0.1:%d" % port, "target": reverse_target})
                else:
                    ls.append({"name": lname, "type": "http" if proto == "http" else "socks", "bind": "127.0.0.1:%d" % port})
        self.fake = fake or {}
        for up in self.fake:          # scripted upstream proxies run by the driver (bb.FakeUpstream): name -> (connector type, port)
            for proto in ("http", "socks5", "socks4"):
                port = bb.free_port()
                self.ports[(proto, up)] = port
                ls.append({"name": "%s_%s" % (proto, up), "type": "http" if proto == "http" else "socks", "bind": "127.0.0.1:%d" % port})
        self.special = {}
        if special:
            # listeners whose requests are denied, match no rule, go to a TCP-only load balancer, or need credentials
            for proto in ("http", "socks5", "socks4"):
                for up in ("deny", "none", "lb"):
                    port = bb.free_port()
                    self.ports[(proto, up)] = port
                    ls.append({"name": "%s_%s" % (proto, up), "type": "http" if proto == "http" else "socks", "bind": "127.0.0.1:%d" % port})
            # TLS-wrapped listeners (the TLS handshake precedes the proxy handshake)
            for proto, typ in (("https", "http"), ("sockstls", "socks")):
                port = bb.free_port()
                self.ports[(proto, "direct")] = port
                ls.append({"name": "%s_direct" % proto, "type": typ, "bind": "127.0.0.1:%d" % port,
                           "tls": {"cert": FX + "/server.crt", "key": FX + "/server.key"}})
            port = bb.free_port()
            self.ports[("socks5", "auth")] = port
            self.ports[("socks4", "auth")] = port
            ls.append({"name": "socks_auth_direct", "type": "socks", "bind": "127.0.0.1:%d" % port,
                       "auth": {"required": True, "users": [{"username": "alice", "password": "secret"}]}})
            # a SOCKS listener that ties the UDP relay to the client address named in the request
            port = bb.free_port()
            self.ports[("socks5", "enforce")] = port
            ls.append({"name": "socks_enforce_direct", "type": "socks", "bind": "127.0.0.1:%d" % port, "enforceUdpClient": True})
        conns = [{"name": "direct"},
                 {"name": "uphttp", "type": "http", "server": "127.0.0.1", "port": self.p2_http},
                 {"name": "upsocks5", "type": "socks", "server": "127.0.0.1", "port": self.p2_socks, "version": 5},
                 {"name": "upsocks4", "type": "socks", "server": "127.0.0.1", "port": self.p2_socks, "version": 4},
                 {"name": "upquic", "type": "quic", "server": "localhost", "port": self.p2_quic, "bind": "127.0.0.1:0", "tls": {"ca": FX + "/ca.crt"}},
                 {"name": "uptls", "type": "http", "server": "localhost", "port": self.p2_https, "tls": {"ca": FX + "/ca.crt"}},
                 {"name": "uphttp6", "type": "http", "server": "::1", "port": self.p2_http6}]
        rules = list(extra_rules_first or [])
        for up, (typ, port) in self.fake.items():
            c = {"name": up, "type": "socks" if typ == "socks4" else typ, "server": "127.0.0.1", "port": port}
            if typ == "socks4":
                c["version"] = 4
            conns.append(c)
            rules.append({"filter": 'request.listener =~ "_%s$"' % up, "target": up})
        if special:
            conns.append({"name": "lb", "type": "loadbalance", "connectors": ["direct"]})
            rules.append({"filter": 'request.listener =~ "_deny$"', "target": "deny"})
            rules.append({"filter": 'request.listener =~ "_lb$"', "target": "lb"})
        for up in UPSTREAMS + EXTRA_UPSTREAMS:
            rules.append({"filter": 'request.listener =~ "_%s$"' % up, "target": up})
        self.access_log = access_log
        self.cfg1 = self._cfg(self.api1, ls, conns, rules, splice, buffer, idle, udp, history, access_log)
        p2rules = ([{"filter": "request.target.port == %d" % p2_deny_port, "target": "deny"}] if p2_deny_port else []) + [{"target": "direct"}]
        self.cfg2 = self._cfg(self.api2, [{"name": "http", "bind": "127.0.0.1:%d" % self.p2_http},
                                          {"name": "socks", "bind": "127.0.0.1:%d" % self.p2_socks},
                                          {"name": "quic", "type": "quic", "bind": "127.0.0.1:%d" % self.p2_quic,
                                           "tls": {"cert": FX + "/server.crt", "key": FX + "/server.key"}},
                                          {"name": "http6", "type": "http", "bind": "[::1]:%d" % self.p2_http6},
                                          {"name": "https", "type": "http", "bind": "127.0.0.1:%d" % self.p2_https,
                                           "tls": {"cert": FX + "/server.crt", "key": FX + "/server.key"}}],
                              [{"name": "direct"}], p2rules, splice, buffer, idle, udp, history, None)
        self.log = log

    @staticmethod
    def _cfg(api, listeners, connectors, rules, splice, buffer, idle, udp, history, access_log):
        al = ("accessLog:\n  path: %s\n  format: json\n" % json.dumps(access_log)) if access_log else ""
        return ("apiVersion: v1alpha\nkind: ProxyDefinition\nioParams:\n  bufferSize: %d\n  useSplice: %s\n"
                "metrics:\n  bind: \"127.0.0.1:%d\"\n  ui: null\n  historySize: %d\n%s"
                "timeouts:\n  idle: %d\n  udp: %d\n"
                "listeners:\n%s\nconnectors:\n%s\nrules:\n%s\n") % (
            buffer, "true" if splice else "false", api, history, al, idle, udp, yaml_list(listeners), yaml_list(connectors), yaml_list(rules))

    def start(self):
        self.p2 = bb.Proxy(self.name + "_p2", self.wd, self.cfg2, log_level=self.log).start(wait_ports=[self.api2])
        self.p1 = bb.Proxy(self.name + "_p1", self.wd, self.cfg1, log_level=self.log).start(wait_ports=[self.api1])
        return self

    def stop(self):
        self.p1.stop()
        self.p2.stop()

    def open(self, proto, up, target, early=b"", timeout=15.0):
        """client side of a tunnel through listener (proto, up). Returns (Conn, reply)"""
        port = self.ports[(proto, up)]
        if proto == "http":
            return bb.http_connect(port, target, early=early, timeout=timeout)
        if proto == "socks5":
            return bb.socks5_connect(port, target, early=early, timeout=timeout)
        if proto == "socks4":
            return bb.socks4_connect(port, target, early=early, timeout=timeout)
        if proto == "https":
            return bb.http_connect(port, target, early=early, timeout=timeout, tls_ctx=bb.client_tls(ca=FX + "/ca.crt"))
        if proto == "sockstls":
            return bb.socks5_connect(port, target, early=early, timeout=timeout, tls_ctx=bb.client_tls(ca=FX + "/ca.crt"))
        return bb.raw_connect(port, early=early, timeout=timeout)


def ctx_of_source(trace, source_port, listener=None):
    """context id of the client connection from 127.0.0.1:source_port (on `listener`); None when absent or ambiguous
    (ephemeral source ports can repeat within one proxy run)"""
    ids = [e["id"] for e in trace if e["ev"] == "ctx_new" and e["source"].endswith(":%d" % source_port)
           and (listener is None or e["listener"] == listener)]
    return ids[0] if len(ids) == 1 else None


def conn_events(trace, cid):
    """the relay-phase events of context cid in sequence order (stat pointers resolved by the relay_begin that precedes them)"""
    owner = {}
    out = []
    started = False
    for e in trace:
        ev = e["ev"]
        if ev == "relay_begin":
            owner[e["c_stat"]] = e["id"]
            owner[e["s_stat"]] = e["id"]
            if e["id"] == cid:
                started = True
                out.append({"ev": ev, "early_c2s": e["early_c2s"], "early_s2c": e["early_s2c"], "t": e["t"], "idle_ms": e["idle_ms"],
                            "splice": e["splice"], "streams": e["streams"], "frames": e["frames"]})
        elif ev in ("xfer", "eof", "half_done"):
            if owner.get(e["stat"]) == cid and started:
                o = {"ev": ev, "from": e["from"], "t": e["t"]}
                if ev == "xfer":
                    o["n"] = e["n"]
                out.append(o)
        elif ev == "state" and e["id"] == cid and started:
            out.append({"ev": ev, "st": e["st"], "t": e["t"]})
        elif ev == "drop" and e["id"] == cid:
            if started:
                out.append({"ev": ev, "c_bytes": e["c_bytes"], "s_bytes": e["s_bytes"], "error": e["error"], "t": e["t"]})
            for k in [k for k, v in owner.items() if v == cid]:
                del owner[k]
    return out


def run_script(topo, proto, up, origin, script, tag, step_wait=2.0):
    """execute one GenRelay script on a fresh tunnel; returns dict with scn / obs / client source port / established"""
    target = ("ipv4", "127.0.0.1", origin.port)
    early_n = script[0]["n"] if script and script[0]["op"] == "early" else 0
    streams = {"c2s": bb.payload(tag + ":c2s", 4096), "s2c": bb.payload(tag + ":s2c", 4096)}
    off = {"c2s": 0, "s2c": 0}
    early = streams["c2s"][:early_n]
    off["c2s"] = early_n
    c, rep = topo.open(proto, up, target, early=early)
    res = {"tag": tag, "proto": proto, "up": up, "reply": {k: (v if not isinstance(v, (bytes, bytearray)) else v.hex()) for k, v in rep.items()},
           "established": bb.established(rep), "sport": c.s.getsockname()[1]}
    if not res["established"]:
        c.close()
        return res
    o = origin.accept(timeout=10.0)
    if o is None:
        res["origin_missing"] = True
        c.close()
        return res
    ep = {"c2s": (c, o), "s2c": (o, c)}     # (source, destination) of each direction
    ending = {"c2s": "open", "s2c": "open"}
    finned = {"c2s": False, "s2c": False}
    if early_n:
        o.recv_some(timeout=step_wait, want=early_n)
    for op in script:
        d = op["d"]
        src, dst = ep[d]
        if op["op"] == "w":
            data = streams[d][off[d]:off[d] + op["n"]]
            off[d] += op["n"]
            src.send(data)
            dst.recv_some(timeout=step_wait, want=op["n"])
        elif op["op"] == "fin":
            src.fin()
            ending[d] = "fin"
            finned[d] = True
            dst.recv_until_eof(timeout=step_wait)
        elif op["op"] == "rst":
            src.rst()
            ending[d] = "rst"
            dst.recv_until_eof(timeout=step_wait)
    # an endpoint aborted: the other endpoint must see the tunnel go away promptly (C04)
    res["abort_seen"] = None
    if "rst" in ending.values():
        survivor = o if ending["c2s"] == "rst" else c
        t_end = time.time() + 8.0
        while time.time() < t_end and not (survivor.eof or survivor.err is not None):
            survivor.recv_some(timeout=0.2, want=1 << 30)
        rd = "c2s" if ending["c2s"] == "rst" else "s2c"      # direction whose source aborted
        # if the aborting side had already half-closed, the survivor has seen EOF anyway: nothing to observe
        res["abort_seen"] = None if finned[rd] else bool(survivor.eof or survivor.err is not None)
    # teardown is part of the scenario: every direction that is still open is ended with FIN
    for d in ("c2s", "s2c"):
        if ending[d] == "open":
            src, dst = ep[d]
            src.fin()
            ending[d] = "fin"
            finned[d] = True
    for e in (c, o):
        if not (e is c and ending["c2s"] == "rst") and not (e is o and ending["s2c"] == "rst"):
            e.recv_until_eof(timeout=10.0)
    got = {"c2s": bytes(o.rx), "s2c": bytes(c.rx)}
    res["scn"] = {"ev": "scn", "sent": {"c2s": off["c2s"], "s2c": off["s2c"]}, "ending": ending, "finned": finned}
    res["obs"] = {"ev": "obs", "recv": {d: len(got[d]) for d in got},
                  "eof": {"c2s": bool(o.eof or o.err is not None), "s2c": bool(c.eof or c.err is not None)}}
    res["intact"] = {d: got[d] == streams[d][:len(got[d])] for d in got}
    res["foreign"] = {d: (got[d][:64].hex() if not res["intact"][d] else "") for d in got}
    c.close()
    o.close()
    return res


def bulk_tunnel(topo, proto, up, origin, tag, up_bytes, down_bytes, pause_reader=0.0, chunk=65536, slow_reader=None):
    """one tunnel moving up_bytes client->origin and down_bytes origin->client concurrently; the receiving sides start
    reading only after `pause_reader` seconds (back-pressure through the proxy); with slow_reader=(bytes, seconds) they
    stay slow until the very end, so the proxy still holds data when the sender's FIN arrives. Returns the observation record."""
    import hashlib
    T = ("ipv4", "127.0.0.1", origin.port)
    c, rep = topo.open(proto, up, T)
    rec = {"tag": tag, "proto": proto, "up": up, "sport": c.s.getsockname()[1], "established": bb.established(rep)}
    if not rec["established"]:
        c.close()
        return rec
    o = origin.accept(10.0)
    if o is None:
        rec["established"] = False
        c.close()
        return rec
    for e in (c, o):
        e.s.settimeout(60.0 if slow_reader else 30.0)
        if slow_reader:
            try:
                e.s.setsockopt(socket.SOL_SOCKET, socket.SO_RCVBUF, slow_reader[2] if len(slow_reader) > 2 else 16384)
            except OSError:
                pass
    result = {}

    def pump(sock_conn, stream, n):
        off = 0
        try:
            while off < n:
                k = min(chunk, n - off)
                sock_conn.s.sendall(bb.payload(stream, k, off))
                off += k
        except OSError as ex:
            result[stream + ":err"] = repr(ex)
        sock_conn.fin()
        result[stream + ":sent"] = off

    def drain(sock_conn, stream, initial=b""):
        time.sleep(pause_reader)
        got = len(initial)
        bad_at = None
        if initial and initial != bb.payload(stream, len(initial), 0):
            bad_at = 0
        eof = False
        try:
            while True:
                if slow_reader:
                    time.sleep(slow_reader[1])
                d = sock_conn.s.recv(slow_reader[0] if slow_reader else 262144)
                if not d:
                    eof = True
                    break
                if bad_at is None and d != bb.payload(stream, len(d), got):
                    exp = bb.payload(stream, len(d), got)
                    bad_at = got + next(i for i in range(len(d)) if d[i] != exp[i])
                got += len(d)
        except OSError as ex:
            result[stream + ":rerr"] = repr(ex)
        result[stream + ":recv"] = got
        result[stream + ":bad_at"] = bad_at
        result[stream + ":eof"] = eof
    sc, so = tag + ":c2s", tag + ":s2c"
    ths = [threading.Thread(target=pump, args=(c, sc, up_bytes)), threading.Thread(target=pump, args=(o, so, down_bytes)),
           threading.Thread(target=drain, args=(o, sc, bytes(o.rx))), threading.Thread(target=drain, args=(c, so, bytes(c.rx)))]
    for t in ths:
        t.start()
    for t in ths:
        t.join(120)
    rec.update({"sent": {"c2s": result.get(sc + ":sent", 0), "s2c": result.get(so + ":sent", 0)},
                "recv": {"c2s": result.get(sc + ":recv", 0), "s2c": result.get(so + ":recv", 0)},
                "intact": {"c2s": result.get(sc + ":bad_at") is None, "s2c": result.get(so + ":bad_at") is None},
                "first_bad_offset": {"c2s": result.get(sc + ":bad_at"), "s2c": result.get(so + ":bad_at")},
                "eof": {"c2s": bool(result.get(sc + ":eof")), "s2c": bool(result.get(so + ":eof"))},
                "errors": {k: v for k, v in result.items() if k.endswith("err")}})
    c.close()
    o.close()
    return rec


def early_reply_tunnel(topo, proto, up, fake, tag, n_up=5000, n_down=7000):
    """a tunnel through a scripted upstream proxy (bb.FakeUpstream) whose success reply arrives in pieces and / or with
    payload glued behind it; both directions carry tagged payload, both sides end with FIN. Observation record as bulk_tunnel."""
    T = ("ipv4", "127.0.0.1", fake.port)
    c, rep = topo.open(proto, up, T)
    rec = {"tag": tag, "proto": proto, "up": up, "sport": c.s.getsockname()[1], "established": bb.established(rep)}
    if not rec["established"]:
        c.close()
        return rec
    o = fake.accept(10.0)
    if o is None:
        rec["established"] = False
        c.close()
        return rec
    glue = o.glue
    sc, so = bb.payload(tag + ":c2s", n_up), bb.payload(tag + ":s2c", n_down)
    c.send(sc)
    o.send(so)
    c.fin()
    o.fin()
    o.recv_until_eof(5.0)
    c.recv_until_eof(5.0)
    want_c = glue + so
    got_c, got_o = bytes(c.rx), bytes(o.rx)

    def first_bad(got, want):
        for i in range(min(len(got), len(want))):
            if got[i] != want[i]:
                return i
        return None if len(got) <= len(want) else len(want)
    rec.update({"sent": {"c2s": len(sc), "s2c": len(want_c)}, "recv": {"c2s": len(got_o), "s2c": len(got_c)},
                "intact": {"c2s": first_bad(got_o, sc) is None, "s2c": first_bad(got_c, want_c) is None},
                "first_bad_offset": {"c2s": first_bad(got_o, sc), "s2c": first_bad(got_c, want_c)},
                "eof": {"c2s": bool(o.eof), "s2c": bool(c.eof)}, "errors": {}, "policy": {"glue": len(glue), "split": bool(o.policy.get("split"))}})
    c.close()
    o.close()
    return rec

# property claims (exec'd by mkmanifest.py)
claim("C11", "model_checking",
      "Frag.tla models the reassembly queue, timer FIFO, id reuse and malformed/inconsistent fragments; TLC checks OutSound/AtMostOncePerSet/Complete/Discarded over all interleavings within the cfg constants, enumerates every bounded call sequence (spec->impl: each replayed on the real Fragments<Frame> with real frames, return value and queue length compared per call), judges the (len,mtu) size grid, and validates random call logs of the real object (impl->spec, TraceFrag).",
      "Bounded: <=4 model frames, <=3 fragments each in the exhaustive part (real frames up to 65535 bytes / 127 fragments in the grid); time is virtual (vtrace::skew hook); premise: id reuse only after the earlier user is gone.",
      "TLA+ model checking (TLC) + exhaustive behaviour replay + trace validation", "DESIGN.md §4 C11")
claim("C09", "model_checking",
      "MiluGrammar.tla holds the README operator table as data (spelling, precedence, associativity, arity) and defines Minimal(t), Full(t), Sexpr(t); TLC enumerates every operator alone, every ordered pair in every operand slot, every chain of three and every fork (thorough: full vocabulary + random chains to depth 6); each rendering is parsed by the real milu::parser::parse and must print as Sexpr(t); every filler (blank, tab, newline, comments incl. empty ones) is put at every token boundary of singles and pairs.",
      "Exhaustive to 3 operators (quick uses one representative spelling per precedence level from depth 3); leaves are identifiers; the parser's Display of the tree is the observation point.",
      "TLA+ case enumeration (TLC) replayed on the real parser", "DESIGN.md §4 C09")

# property claims (exec'd by mkmanifest.py)
claim("C11", "model_checking",
      "Frag.tla models the reassembly queue, timer FIFO, id reuse and malformed/inconsistent fragments; TLC checks OutSound/AtMostOncePerSet/Complete/Discarded over all interleavings within the cfg constants, enumerates every bounded call sequence (spec->impl: each replayed on the real Fragments<Frame> with real frames, return value and queue length compared per call), judges the (len,mtu) size grid, and validates random call logs of the real object (impl->spec, TraceFrag).",
      "Bounded: <=4 model frames, <=3 fragments each in the exhaustive part (real frames up to 65535 bytes / 127 fragments in the grid); time is virtual (vtrace::skew hook); premise: id reuse only after the earlier user is gone.",
      "TLA+ model checking (TLC) + exhaustive behaviour replay + trace validation", "DESIGN.md §4 C11")

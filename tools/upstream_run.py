"""C19 scenario driver: a front proxy P1 with one connector per kind, each towards its own upstream process; the driver
kills / restarts / stalls / impersonates the upstreams and records every probe as an observation record."""
import json, os, signal, socket, threading, time
import vlib, bb, scen

FX = bb.FIX
KINDS = ["direct", "http", "socks", "quic", "lb"]


class EchoOrigin:
    """echoing TCP origin that can be taken down and brought back on the same port"""

    def __init__(self, port=None):
        self.port = port or bb.free_port()
        self.ls = None
        self.threads = []
        self.accepted = 0
        self.epoch = 0
        self.dead = False
        self.lock = threading.Lock()
        self.start()

    def start(self):
        ls = socket.socket(socket.AF_INET, socket.SOCK_STREAM)
        ls.setsockopt(socket.SOL_SOCKET, socket.SO_REUSEADDR, 1)
        end = time.time() + 5
        while True:
            try:
                ls.bind(("127.0.0.1", self.port))
                break
            except OSError:
                if time.time() > end:
                    raise
                time.sleep(0.05)
        ls.listen(64)
        self.epoch += 1
        self.ls = ls
        self.acceptor = threading.Thread(target=self._run, args=(ls, self.epoch), daemon=True)
        self.acceptor.start()

    def _run(self, ls, epoch):
        ls.settimeout(0.05)
        while self.epoch == epoch and not self.dead:
            try:
                s, _ = ls.accept()
            except socket.timeout:
                continue
            except OSError:
                break
            with self.lock:
                self.accepted += 1
            th = threading.Thread(target=self._echo, args=(s, epoch), daemon=True)
            self.threads.append(th)
            th.start()
        ls.close()

    def _echo(self, s, epoch):
        import select, struct
        try:
            while True:
                if self.dead or self.epoch != epoch:
                    # the origin process was killed: its connections are reset
                    s.setsockopt(socket.SOL_SOCKET, socket.SO_LINGER, struct.pack("ii", 1, 0))
                    break
                r, _, _ = select.select([s], [], [], 0.05)
                if not r:
                    continue
                d = s.recv(65536)
                if not d:
                    break
                s.sendall(d)
        except OSError:
            pass
        try:
            s.close()
        except OSError:
            pass

    def stop(self):
        """listener gone and every open connection reset, as when the origin process is killed"""
        self.dead = True
        self.acceptor.join(2)
        for th in self.threads:
            th.join(2)
        self.threads = []

    def restart(self):
        self.dead = False
        self.start()


class World:
    def __init__(self, wd, name="c19"):
        self.wd = wd
        self.name = name
        self.origin = EchoOrigin()            # behind the upstream proxies
        self.origin_direct = EchoOrigin()     # the "upstream" of the direct connector
        self.api1 = bb.free_port()
        self.lport = {k: bb.free_port() for k in KINDS + ["ok"]}
        self.up = {}                          # kind -> dict(cfg, ports, proxy)
        cs = []
        for k, typ in (("http", "http"), ("socks", "socks"), ("quic", "quic"), ("lb1", "http"), ("lb2", "http"), ("ok", "http")):
            port = bb.free_port(socket.SOCK_DGRAM if typ == "quic" else socket.SOCK_STREAM)
            api = bb.free_port()
            l = {"name": "l", "type": typ, "bind": "127.0.0.1:%d" % port}
            if typ == "quic":
                l["tls"] = {"cert": FX + "/server.crt", "key": FX + "/server.key"}
            cfg = ("apiVersion: v1alpha\nkind: ProxyDefinition\nmetrics:\n  bind: \"127.0.0.1:%d\"\n  ui: null\nlisteners:\n%s\nconnectors:\n  - name: direct\nrules:\n  - target: direct\n"
                   % (api, scen.yaml_list([l])))
            self.up[k] = {"cfg": cfg, "port": port, "api": api, "proxy": None, "gen": 0, "typ": typ}
            c = {"name": k, "type": typ, "server": "localhost" if typ == "quic" else "127.0.0.1", "port": port}
            if typ == "quic":
                c["bind"] = "127.0.0.1:0"
                c["tls"] = {"ca": FX + "/ca.crt"}
            cs.append(c)
        cs.append({"name": "direct"})
        cs.append({"name": "lb", "type": "loadbalance", "connectors": ["lb1", "lb2"], "algorithm": "roundRobin"})
        ls = [{"name": "in_" + k, "type": "http", "bind": "127.0.0.1:%d" % p} for k, p in self.lport.items()]
        rules = [{"filter": 'request.listener == "in_%s"' % k, "target": k} for k in self.lport]
        self.cfg1 = ("apiVersion: v1alpha\nkind: ProxyDefinition\nmetrics:\n  bind: \"127.0.0.1:%d\"\n  ui: null\n  historySize: 2000\ntimeouts:\n  idle: 600\nlisteners:\n%s\nconnectors:\n%s\nrules:\n%s\n"
                     % (self.api1, scen.yaml_list(ls), scen.yaml_list(cs), scen.yaml_list(rules)))
        self.p1 = None
        self.records = []
        self.rlock = threading.Lock()
        self.t0 = time.time()
        self.bg_stop = False
        self.last_probe = {}
        self.up_since = {}
        self.closed_port = bb.free_port()

    def now(self):
        return round(time.time() - self.t0, 3)

    def rec(self, r):
        r["t"] = self.now()
        with self.rlock:
            self.records.append(r)

    def start_up(self, k):
        u = self.up[k]
        u["gen"] += 1
        u["proxy"] = bb.Proxy("%s_up_%s_%d" % (self.name, k, u["gen"]), self.wd, u["cfg"]).start(wait_ports=[u["api"]])
        return u["proxy"]

    def start(self):
        for k in self.up:
            self.start_up(k)
        self.p1 = bb.Proxy(self.name + "_p1", self.wd, self.cfg1).start(wait_ports=[self.api1])
        return self

    def stop(self):
        self.bg_stop = True
        for u in self.up.values():
            if u["proxy"]:
                try:
                    os.kill(u["proxy"].p.pid, signal.SIGCONT)
                except OSError:
                    pass
                u["proxy"].stop()
        if self.p1:
            self.p1.stop()
        self.origin.stop()
        self.origin_direct.stop()

    def target(self, kind):
        o = self.origin_direct if kind == "direct" else self.origin
        return ("ipv4", "127.0.0.1", o.port)

    def probe(self, kind, phase, timeout=4.0, tag=b"ping", dest=None):
        """one request through connector `kind`: tunnel established and echo round trip; dest="closed": towards a port
        where nothing listens (the upstream is fine, the destination is not)"""
        t = time.time()
        out = "fail"
        why = ""
        c = None
        try:
            target = self.target(kind) if dest is None else ("ipv4", "127.0.0.1", self.closed_port)
            c, rep = bb.http_connect(self.lport[kind], target, timeout=timeout)
            if bb.established(rep):
                c.send(tag)
                c.recv_some(timeout=timeout, want=len(tag))
                out = "ok" if bytes(c.rx[:len(tag)]) == tag else "broken"
            elif not rep.get("complete") and not c.eof and c.err is None:
                out = "hang"
            else:
                why = str(rep.get("status"))
        except socket.timeout:
            out = "hang"
        except OSError as e:
            why = repr(e)[:80]
        if c:
            c.close()
        dt = round(time.time() - t, 3)
        r = {"ev": "probe", "kind": kind, "phase": phase, "outcome": out, "seconds": dt, "why": why, "dest": dest or "origin"}
        self.rec(r)
        self.last_probe[kind] = r
        return out

    def background_ok(self, period=0.25):
        def run():
            while not self.bg_stop:
                self.probe("ok", "background", timeout=3.0)
                time.sleep(period)
        th = threading.Thread(target=run, daemon=True)
        th.start()
        return th

    def open_tunnel(self, kind):
        c, rep = bb.http_connect(self.lport[kind], self.target(kind), timeout=4.0)
        if not bb.established(rep):
            c.close()
            return None
        c.send(b"hello")
        c.recv_some(timeout=3.0, want=5)
        if bytes(c.rx[:5]) != b"hello":
            c.close()
            return None
        c.rx = bytearray()
        return c

    def watch_close(self, c, kind, phase, limit):
        """after the upstream died: the client side of an open tunnel must be closed (EOF or reset) within `limit` seconds"""
        t = time.time()
        c.recv_some(timeout=limit, want=1 << 30)
        closed = c.eof or c.err is not None
        if not closed:
            # a tunnel whose peer vanished silently is only noticed when something is sent
            c.send(b"x" * 10)
            c.recv_some(timeout=min(5.0, limit), want=1 << 30)
            closed = c.eof or c.err is not None
        self.rec({"ev": "tunnel", "kind": kind, "phase": phase, "closed": closed, "seconds": round(time.time() - t, 3), "got": len(c.rx)})
        c.close()
        return closed

    def down(self, kind, how, member=None):
        """take the upstream of `kind` away (for the load balancer: member lb1 unless told otherwise)"""
        k = member or ("lb1" if kind == "lb" else kind)
        self.rec({"ev": "fault", "kind": kind, "how": how, "up": k})
        if kind == "direct":
            self.origin_direct.stop()
            return
        p = self.up[k]["proxy"]
        if how == "kill":
            p.kill9()
        elif how == "stall":
            os.kill(p.p.pid, signal.SIGSTOP)

    def back(self, kind, how, member=None):
        k = member or ("lb1" if kind == "lb" else kind)
        if kind == "direct":
            self.origin_direct.restart()
        else:
            if how == "stall":
                os.kill(self.up[k]["proxy"].p.pid, signal.SIGCONT)
            else:
                self.start_up(k)
        self.up_since[kind] = time.time()
        self.rec({"ev": "restored", "kind": kind, "how": how, "up": k})

    def until_ok(self, kind, phase, limit, period=0.5, need=2):
        """probe until `need` consecutive successes; every attempt is recorded"""
        end = time.time() + limit
        run = 0
        n = 0
        while time.time() < end:
            n += 1
            if self.probe(kind, phase) == "ok":
                run += 1
                if run >= need:
                    return n
            else:
                run = 0
                time.sleep(period)
        return None

    def hijack(self, kind, mode, probes=3, probe_fn=None):
        """while the upstream is gone something else answers on its port: closes at once / sends garbage / accepts and stays silent"""
        k = "lb1" if kind == "lb" else kind
        port = self.origin_direct.port if kind == "direct" else self.up[k]["port"]
        ls = socket.socket(socket.AF_INET, socket.SOCK_STREAM)
        ls.setsockopt(socket.SOL_SOCKET, socket.SO_REUSEADDR, 1)
        end = time.time() + 5
        while True:
            try:
                ls.bind(("127.0.0.1", port))
                break
            except OSError:
                if time.time() > end:
                    raise
                time.sleep(0.05)
        ls.listen(16)
        held = []
        stop = [False]

        def run():
            ls.settimeout(0.2)
            while not stop[0]:
                try:
                    s, _ = ls.accept()
                except socket.timeout:
                    continue
                except OSError:
                    return
                if mode == "close":
                    s.close()
                elif mode == "garbage":
                    try:
                        s.settimeout(0.5)
                        s.recv(4096)
                        s.sendall(b"\x00\xffHTTP/9.9 999 \r\n\x05\x09\r\n\r\n" * 3)
                    except OSError:
                        pass
                    s.close()
                else:
                    held.append(s)
        th = threading.Thread(target=run, daemon=True)
        th.start()
        self.rec({"ev": "fault", "kind": kind, "how": "hijack-" + mode, "up": k})
        for _ in range(probes):
            (probe_fn or self.probe)(kind, "hijack-" + mode, timeout=2.0)
        stop[0] = True
        th.join()
        ls.close()
        for s in held:
            s.close()

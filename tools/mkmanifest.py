#!/usr/bin/env python3
"""Regenerates MANIFEST.json from the table below (kept in one place so the manifest is always valid)."""
import json, os, subprocess
ROOT = os.path.dirname(os.path.dirname(os.path.abspath(__file__)))

CHECKS = {}   # pid -> dict(level, text, note, technique, design, engine)
PENDING = {}  # pid -> reason (not claimed yet)

def claim(pid, level, text, note, technique, design):
    CHECKS[pid] = dict(level=level, text=text, note=note, technique=technique, design=design)

exec(open(os.path.join(ROOT, "tools", "claims.py")).read())

props = [json.loads(l)["id"] for l in open(os.path.join(ROOT, "properties.jsonl"))]
hooks = subprocess.run(["git", "-C", "/repo", "log", "--format=%h %s"], stdout=subprocess.PIPE, text=True).stdout.splitlines()
hook_commits = [l.split()[0] for l in hooks if l.split(" ", 1)[1].startswith("verif hooks")]
m = {
    "version": 1,
    "setup_cmd": "cd /verif/harness && cargo build --offline --bins && cd /verif && python3 tools/selfcheck.py",
    "hooks": {
        "guard": "redproxy_verif",
        "enable": "rustflags = [\"--cfg\",\"redproxy_verif\"] in /verif/harness/.cargo/config.toml; the harness crate root is include!(\"/repo/src/main.rs\"), so /repo's own manifest never sees the flag",
        "baseline_off_cmd": "cd /repo && cargo nextest run --workspace --no-fail-fast --offline --test-threads 8 || cargo test --workspace --no-fail-fast --offline",
        "source_commits": hook_commits,
        "add_only": True,
    },
    "engines": [
        {"name": "tlc", "path": "/verif/spec", "serves_properties": sorted(CHECKS), "kind_free_text": "TLA+ design specs, bounded MC instances, case generators and trace specs, all run with TLC"},
        {"name": "rpverif", "path": "/verif/harness", "serves_properties": sorted(CHECKS), "kind_free_text": "cargo crate whose root is include!(/repo/src/main.rs): in-process drivers (vh) and the real proxy binary (rp) built from /repo's working tree with hooks on"},
        {"name": "check.py", "path": "/verif/tools", "serves_properties": sorted(CHECKS), "kind_free_text": "runner: TLC model check, behaviour generation, replay / trace validation, findings classification, evidence"},
    ],
    "checks": [],
    "notes": "Every claimed property is decided by an explicit TLA+ specification checked with TLC and bound to the implementation by replaying TLC-generated behaviours into the real code and/or validating recorded traces against the specification. See DESIGN.md.",
    "not_applicable": [],
}
for pid in props:
    if pid in CHECKS:
        c = CHECKS[pid]
        m["checks"].append({
            "property_id": pid,
            "quick_cmd": "python3 tools/check.py %s --tier quick" % pid,
            "thorough_cmd": "python3 tools/check.py %s --tier thorough" % pid,
            "evidence_file": "/verif/evidence/%s.json" % pid,
            "replay_cmd_template": "python3 tools/check.py %s --replay {path}" % pid,
            "engine": "tlc+rpverif",
            "level_claimed": {"category": c["level"], "text": c["text"], "design_ref": c["design"]},
            "level_note": c["note"],
            "technique": c["technique"],
        })
    else:
        m["not_applicable"].append({"property_id": pid, "reason": PENDING.get(pid, "check not built yet in this round; not claimed")})
json.dump(m, open(os.path.join(ROOT, "MANIFEST.json"), "w"), indent=1)
print("claimed:", sorted(CHECKS), "unclaimed:", [p for p in props if p not in CHECKS])

#!/usr/bin/env python3
"""Shared runner machinery: harness build, TLC invocation, case generation, trace validation,
findings classification and evidence writing.  Exit codes: 0 held, 1 VIOLATION, 2 tool error."""
import json, os, re, shutil, subprocess, sys, time, hashlib, random

ROOT = os.path.dirname(os.path.dirname(os.path.abspath(__file__)))
SPEC = os.path.join(ROOT, "spec")
HARNESS = os.path.join(ROOT, "harness")
EVID = os.path.join(ROOT, "evidence")
WORK = os.path.join(ROOT, "work")
REPO = os.environ.get("RP_SRC", "/repo")
FINDINGS = os.path.join(ROOT, "known_findings.json")


class ToolError(Exception):
    pass


def log(*a):
    print(*a, file=sys.stderr, flush=True)


def workdir(name):
    d = os.path.join(WORK, name)
    shutil.rmtree(d, ignore_errors=True)
    os.makedirs(d, exist_ok=True)
    return d


def seed():
    try:
        return int(os.environ.get("VERIF_SEED", "1"))
    except ValueError:
        return 1


# ---------------------------------------------------------------------------------------------
# harness

_built = False


def build_harness():
    """cargo build of the harness; the crate root is an include! of /repo/src/main.rs so this always
    reflects /repo's current working tree."""
    global _built
    bindir = os.path.join(HARNESS, "target", "debug")
    if _built:
        return bindir
    env = dict(os.environ)
    env["CARGO_NET_OFFLINE"] = "true"
    env.setdefault("RP_SRC", REPO)
    t0 = time.time()
    p = subprocess.run(["cargo", "build", "--offline", "--bins"], cwd=HARNESS, env=env,
                       stdout=subprocess.PIPE, stderr=subprocess.STDOUT, text=True)
    if p.returncode != 0:
        log(p.stdout[-6000:])
        raise ToolError("harness build failed")
    log("[build] harness ok in %.1fs" % (time.time() - t0))
    _built = True
    return bindir


def vh(args, stdin_path=None, stdout_path=None, timeout=3600, env_extra=None, cwd=None):
    """Run the in-process driver binary. Returns (returncode, stdout_text_or_None, stderr_tail)."""
    bindir = build_harness()
    env = dict(os.environ)
    env.setdefault("RUST_BACKTRACE", "0")
    if env_extra:
        env.update(env_extra)
    fin = open(stdin_path, "rb") if stdin_path else subprocess.DEVNULL
    fout = open(stdout_path, "wb") if stdout_path else subprocess.PIPE
    try:
        p = subprocess.run([os.path.join(bindir, "vh")] + list(args), stdin=fin, stdout=fout,
                           stderr=subprocess.PIPE, timeout=timeout, env=env, cwd=cwd)
    except subprocess.TimeoutExpired:
        raise ToolError("vh %s timed out" % " ".join(args))
    finally:
        if stdin_path:
            fin.close()
        if stdout_path:
            fout.close()
    out = None if stdout_path else p.stdout.decode("utf-8", "replace")
    return p.returncode, out, p.stderr.decode("utf-8", "replace")[-4000:]


# ---------------------------------------------------------------------------------------------
# TLC

JAVA_CP = "/opt/veriftools/tla/tla2tools.jar:/opt/veriftools/tla/CommunityModules-deps.jar"


class TlcResult:
    def __init__(self):
        self.ok = False
        self.generated = 0
        self.distinct = 0
        self.depth = 0
        self.violation = None
        self.output = ""
        self.cases = []
        self.coverage = {}
        self.wall = 0.0
        self.cmd = ""


def run_tlc(module, cfg=None, workers=4, timeout=600, env_extra=None, simulate=None, depth=None,
            coverage=False, dfs=False, xmx="6g", marker="CASE", cwd=SPEC, extra=None, name=None,
            seed_val=None):
    """Run TLC on spec/<module>.tla with spec/<cfg>. Collect statistics and CASE lines."""
    name = name or (cfg or module).replace(".cfg", "")
    meta = workdir("tlc_" + name)
    cmd = ["java", "-XX:+UseParallelGC", "-Xmx" + xmx, "-Xss1g"]
    if dfs:
        cmd.append("-Dtlc2.tool.queue.IStateQueue=StateDeque")
    cmd += ["-cp", JAVA_CP, "tlc2.TLC", "-workers", str(workers), "-metadir", meta, "-cleanup",
            "-noGenerateSpecTE"]
    if coverage:
        cmd += ["-coverage", "1"]
    if simulate:
        cmd += ["-simulate", "num=%d" % simulate]
        if depth:
            cmd += ["-depth", str(depth)]
        if seed_val is not None:
            cmd += ["-seed", str(seed_val)]
    if extra:
        cmd += extra
    cmd += ["-config", cfg or (module + ".cfg"), module + ".tla"]
    env = dict(os.environ)
    if env_extra:
        env.update({k: str(v) for k, v in env_extra.items()})
    r = TlcResult()
    r.cmd = " ".join(cmd[cmd.index("tlc2.TLC"):])
    t0 = time.time()
    try:
        p = subprocess.run(cmd, cwd=cwd, env=env, stdout=subprocess.PIPE, stderr=subprocess.STDOUT,
                           timeout=timeout)
    except subprocess.TimeoutExpired:
        shutil.rmtree(meta, ignore_errors=True)
        raise ToolError("TLC timeout on %s/%s after %ds" % (module, cfg, timeout))
    r.wall = time.time() - t0
    out = p.stdout.decode("utf-8", "replace")
    shutil.rmtree(meta, ignore_errors=True)
    r.output = out
    r.marked = {}
    for line in out.splitlines():
        mm = re.match(r'^<<"([A-Z]+)", (".*")>>$', line)
        if mm:
            try:
                obj = json.loads(json.loads(mm.group(2)))
            except Exception as e:  # pragma: no cover
                raise ToolError("cannot parse TLC case line: %s (%s)" % (line[:200], e))
            r.marked.setdefault(mm.group(1), []).append(obj)
    r.cases = r.marked.get(marker, [])
    m = re.findall(r"(\d+) states generated, (\d+) distinct states found", out)
    if m:
        r.generated, r.distinct = int(m[-1][0]), int(m[-1][1])
    m = re.search(r"The depth of the complete state graph search is (\d+)", out)
    if m:
        r.depth = int(m.group(1))
    if coverage:
        for mm in re.finditer(r"^<(\w+) line \d+, col \d+ to line \d+, col \d+ of module (\w+)>: (\d+):(\d+)",
                              out, re.M):
            r.coverage[mm.group(1)] = r.coverage.get(mm.group(1), 0) + int(mm.group(4))
    if "Error:" in out or "is violated" in out or "Exception" in out and "No error has been found" not in out:
        r.ok = False
        m = re.search(r"Error: (.*)", out)
        r.violation = m.group(1) if m else "error"
    elif "No error has been found" in out or (simulate and p.returncode == 0):
        r.ok = True
    else:
        r.ok = False
        r.violation = "no verdict (rc=%d)" % p.returncode
    return r


def tlc_must_pass(r, what):
    if not r.ok:
        log(r.output[-5000:])
        raise ToolError("TLC failed on %s: %s" % (what, r.violation))
    return r


def require_coverage(r, actions):
    """Vacuity guard: every named action must have been taken at least once."""
    missing = [a for a in actions if r.coverage.get(a, 0) == 0]
    if missing:
        log(r.output[-3000:])
        raise ToolError("vacuous model run: actions never taken: %s" % missing)


def validate_trace(module, cfg, trace_path, timeout=600, env_extra=None, name=None, dfs=True):
    """impl -> spec: replay an NDJSON trace through Trace<X>.tla. Returns (accepted, info)."""
    env = {"TRACE": trace_path}
    if env_extra:
        env.update(env_extra)
    r = run_tlc(module, cfg, workers=1, timeout=timeout, env_extra=env, dfs=dfs, xmx="4g",
                name=name or ("trace_" + module))
    accepted = r.ok and "TRACE-ACCEPTED" in r.output
    info = ""
    m = re.search(r'"TRACE-REJECTED".*', r.output)
    if m:
        info = m.group(0)[:600]
    elif not accepted:
        info = (r.violation or "") + " " + r.output[-800:]
    return accepted, info, r


# ---------------------------------------------------------------------------------------------
# findings

def load_findings():
    if not os.path.exists(FINDINGS):
        return []
    with open(FINDINGS) as f:
        return json.load(f)


class Verdicts:
    """Collects discrepancies for one property, classifies them through known_findings.json."""

    def __init__(self, pid):
        self.pid = pid
        self.known = [f for f in load_findings() if f.get("property") == pid and f.get("status") == "known"]
        self.violations = []   # (key, detail, replay_obj)
        self.known_hits = {}   # key -> count

    def report(self, key, detail, replay=None):
        for f in self.known:
            if f["key"] == key:
                self.known_hits[key] = self.known_hits.get(key, 0) + 1
                return "known"
        self.violations.append((key, detail, replay))
        return "violation"

    def finish(self, evidence, t0):
        os.makedirs(EVID, exist_ok=True)
        rep_dir = os.path.join(EVID, "replay")
        if os.path.isdir(rep_dir):
            for fn in os.listdir(rep_dir):
                if re.match(r"^%s_\d+\.json$" % self.pid, fn):
                    os.remove(os.path.join(rep_dir, fn))
        n = len(self.violations)
        evidence["violations"] = n
        evidence["wall_s"] = round(time.time() - t0, 2)
        if self.known_hits:
            evidence["coverage"]["known_findings_hit"] = self.known_hits
        write_evidence(self.pid, evidence)
        for f in self.known:
            if f["key"] in self.known_hits:
                print("KNOWN-FINDING: property=%s %s [%s] (%d cases)" % (
                    self.pid, f["what"], f["key"], self.known_hits[f["key"]]))
        if n:
            import collections
            hist = collections.Counter(k for k, _, _ in self.violations)
            log("violation keys (%d distinct):" % len(hist))
            for k, cnt in hist.most_common(80):
                log("   %6d  %s" % (cnt, k))
            os.makedirs(rep_dir, exist_ok=True)
            seen = set()
            firsts = {}
            for tup in self.violations:
                firsts.setdefault(tup[0], tup)
            ordered = list(firsts.values()) + [t for t in self.violations if firsts[t[0]] is not t]
            for i, (key, detail, replay) in enumerate(ordered[:60]):
                path = os.path.join(rep_dir, "%s_%d.json" % (self.pid, i))
                with open(path, "w") as f:
                    json.dump({"property": self.pid, "key": key, "detail": detail, "replay": replay}, f, indent=1)
                if key in seen and i > 5:
                    continue
                seen.add(key)
                print("VIOLATION property=%s replay=%s key=%s %s" % (self.pid, path, key, str(detail)[:300]))
            if n > 50:
                print("(... %d further violations not written)" % (n - 50))
            sys.stdout.flush()
            return 1
        print("OK property=%s violations=0" % self.pid)
        return 0


def write_evidence(pid, ev):
    os.makedirs(EVID, exist_ok=True)
    with open(os.path.join(EVID, pid + ".json"), "w") as f:
        json.dump(ev, f, indent=1, default=str)


def evidence(pid, tier, level, coverage, assumptions):
    return {"property_id": pid, "tier": tier, "seed": seed(), "level": level, "coverage": coverage,
            "assumptions": assumptions, "wall_s": 0.0, "violations": 0}


def digest(obj):
    return hashlib.sha1(json.dumps(obj, sort_keys=True).encode()).hexdigest()[:12]


def no_nulls(o):
    """TLC's Json module cannot read null: drop null members, turn null list items into the string "null"""
    if isinstance(o, dict):
        return {k: no_nulls(v) for k, v in o.items() if v is not None}
    if isinstance(o, (list, tuple)):
        return ["null" if v is None else no_nulls(v) for v in o]
    return o


def write_ndjson(path, objs):
    with open(path, "w") as f:
        for o in objs:
            f.write(json.dumps(no_nulls(o), separators=(",", ":")) + "\n")


def read_ndjson(path):
    out = []
    with open(path, "rb") as f:
        for line in f:
            line = line.strip()
            if line:
                out.append(json.loads(line.decode("utf-8", "replace")))
    return out

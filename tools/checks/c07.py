"""C07 - configured peer authentication is enforced on every path.
TLA+: Auth.tla (method negotiation table, verdict cache with expiry, TLS policy tables), MCAuth."""
import json, os, socket, ssl, struct, threading, time
import vlib, bb, scen

PID = "C07"
FX = bb.FIX
CREDS = {"valid": (b"alice", b"secret"), "wrongpass": (b"alice", b"Secret"), "unknownuser": (b"bob", b"secret"), "emptyboth": (b"", b""),
         "emptypass_user": (b"carol", b""), "listed_emptypass": (b"alice", b""), "listed_prefixpass": (b"alice", b"secre"),
         "listed_extendedpass": (b"alice", b"secretsecret"), "long255": (b"a" * 255, b"b" * 255), "nonutf8": (b"al\xffce", b"secr\xfe")}


def socks5_offer(port, offer, cred, target, timeout=4.0, cmd="connect"):
    """SOCKS5 with an arbitrary method offer; everything (offer, credentials, request) pipelined. Returns (selected method, reply code or None)"""
    s = socket.create_connection(("127.0.0.1", port), timeout=timeout)
    c = bb.Conn(s)
    u, p = CREDS[cred]
    msg = b"\x05" + bytes([len(offer)]) + bytes(offer)
    auth = b"\x01" + bytes([len(u)]) + u + bytes([len(p)]) + p
    req = b"\x05" + {"connect": b"\x01", "bind": b"\x02", "udp": b"\x03"}[cmd] + b"\x00\x01" + \
        (socket.inet_aton(target[1]) + struct.pack(">H", target[2]) if cmd == "connect" else b"\x00" * 6)
    c.send(msg)
    c.recv_some(timeout=timeout, want=2)
    if len(c.rx) < 2:
        c.close()
        return None, None
    method = c.rx[1]
    c.rx = c.rx[2:]
    if method == 0xff:
        c.send(req)      # a peer that ignores the refusal and asks anyway
        c.recv_some(timeout=0.05, want=1)
        c.close()
        return 255, None
    if method == 2:
        c.send(auth)
        c.recv_some(timeout=timeout, want=2)
        c.rx = c.rx[2:]
    c.send(req)
    c.recv_some(timeout=timeout, want=10)
    rep = c.rx[1] if len(c.rx) >= 2 else None
    c.close()
    return method, rep


def observe(origin, fn, expect, tries=3):
    """run fn() (returns whether the client was told 'established'); report whether the origin was contacted.
    The accept counter is brought in sync first and a positive observation is repeated: a late accept of an
    earlier case must not be attributed to this one."""
    res = []
    for k in range(tries):
        time.sleep(0.01 if k == 0 else 0.4)
        while not origin.q.empty():
            origin.q.get().close()
        n0 = origin.accepted
        info = None
        try:
            info = fn()
        except (ssl.SSLError, OSError) as e:
            info = ("error", repr(e)[:120])
        end = time.time() + (2.0 if info and info[0] is True else 0.03 if k == 0 else 0.3)
        while origin.accepted == n0 and time.time() < end:
            time.sleep(0.005)
        contacted = origin.accepted > n0
        res.append((contacted, info))
        if not contacted or expect:
            break
    while not origin.q.empty():
        origin.q.get().close()
    return all(r[0] for r in res), res[-1][1]


def tls_ctx(cert):
    ctx = ssl.SSLContext(ssl.PROTOCOL_TLS_CLIENT)
    ctx.load_verify_locations(FX + "/ca.crt")
    ctx.check_hostname = False
    if cert == "valid":
        ctx.load_cert_chain(FX + "/client.crt", FX + "/client.key")
    elif cert == "foreign":
        ctx.load_cert_chain(FX + "/foreignclient.crt", FX + "/foreignclient.key")
    return ctx


def run(tier, t0):
    v = vlib.Verdicts(PID)
    wd = vlib.workdir("c07")
    thorough = tier == "thorough"
    vlib.build_harness()
    # ---- (2) verdict cache: every history of the bounded model replayed on the real AuthData ----
    hg = vlib.tlc_must_pass(vlib.run_tlc("Auth", "MCAuthCache.cfg" if thorough else "MCAuthCache5.cfg", workers=8, timeout=1800, xmx="12g"), "MCAuthCache")
    hists = hg.cases
    if len(hists) < 1000:
        raise vlib.ToolError("too few cache histories")
    cpath = os.path.join(wd, "hist.ndjson")
    vlib.write_ndjson(cpath, [{"id": i, "truth0": h["truth0"], "h": h["h"]} for i, h in enumerate(hists)])
    rpath = os.path.join(wd, "hist_res.ndjson")
    scratch = os.path.join(wd, "scratch")
    os.makedirs(scratch, exist_ok=True)
    rc, _, err = vlib.vh(["auth", cpath, scratch], stdout_path=rpath, timeout=3000)
    if rc != 0:
        raise vlib.ToolError("vh auth failed: " + err)
    nh = 0
    suspects = []       # (key, detail, case): discrepancies under the paused clock, to be confirmed in real time
    for r in vlib.read_ndjson(rpath):
        if r.get("summary"):
            continue
        nh += 1
        h = hists[r["id"]]
        if r.get("panic"):
            v.report("auth/cache/panic", r["panic"], {"driver": "vh auth", "case": {"id": 0, "truth0": h["truth0"], "h": h["h"]}})
            continue
        for k, (st, ob) in enumerate(zip(h["h"], r["obs"])):
            if st["op"] != "attempt":
                continue
            if ob["verdict"] != st["verdict"] or ob["src"] != st["src"]:
                kind = "stale-or-foreign-verdict" if ob["src"] == "cache" and st["src"] == "cmd" else \
                       "verdict" if ob["verdict"] != st["verdict"] else "not-cached"
                suspects.append(("auth/cache/%s" % kind, {"step": k, "expected": {"verdict": st["verdict"], "src": st["src"]}, "observed": ob,
                                                            "history": [(x["op"], x["pair"]) for x in h["h"]], "truth0": h["truth0"]},
                                 {"id": len(suspects), "truth0": h["truth0"], "h": h["h"], "real": True}))
                break
    if nh != len(hists):
        raise vlib.ToolError("auth driver answered %d of %d" % (nh, len(hists)))
    # the exhaustive run uses tokio's paused clock; an implementation is free to measure expiry with another clock, so a
    # discrepancy only counts when the same history shows it in real time (1.1 s per tick; at most 32 histories of different shape, in parallel)
    unconfirmed = 0
    if suspects:
        # as many different history shapes as possible
        shapes = {}
        for sp in suspects:
            shapes.setdefault(json.dumps(sp[1]["history"]), sp)
        pick = list(shapes.values())[:32]
        for i, (_, _, case) in enumerate(pick):
            case["id"] = i
        cp2 = os.path.join(wd, "hist_real.ndjson")
        vlib.write_ndjson(cp2, [c for _, _, c in pick])
        rp2 = os.path.join(wd, "hist_real_res.ndjson")
        rc, _, err = vlib.vh(["auth", cp2, scratch], stdout_path=rp2, timeout=600)
        if rc != 0:
            raise vlib.ToolError("vh auth (real time) failed: " + err)
        for r in vlib.read_ndjson(rp2):
            if r.get("summary"):
                continue
            key, detail, case = pick[r["id"]]
            again = False
            for st, ob in zip(case["h"], r.get("obs", [])):
                if st["op"] == "attempt" and (ob.get("verdict") != st["verdict"] or ob.get("src") != st["src"]):
                    again = True
            if again or r.get("panic"):
                detail["confirmed_in_real_time"] = True
                v.report(key, detail, {"driver": "vh auth", "case": case})
            else:
                unconfirmed += 1
    # ---- tables ----
    tg = vlib.tlc_must_pass(vlib.run_tlc("MCAuth", "MCAuthTab.cfg", workers=4, timeout=600), "MCAuthTab")
    seen = set()
    rows = []
    for c in tg.cases:
        k = json.dumps(c, sort_keys=True)
        if k not in seen:
            seen.add(k)
            rows.append(c)
    print("[c07] cache histories done %.0fs" % (time.time() - t0), flush=True)
    neg = [c for c in rows if c["kind"] == "neg"]
    ltls = [c for c in rows if c["kind"] == "ltls"]
    ctls = [c for c in rows if c["kind"] == "ctls"]
    origin = bb.TcpOrigin()
    T = ("ipv4", "127.0.0.1", origin.port)
    ports = {k: bb.free_port() for k in ["api", "s_req", "s_opt", "s4"] + ["l_%s_%s" % (k, p) for k in ("http", "socks") for p in ("none", "optional", "required")]}
    ls = [{"name": "s_req", "type": "socks", "bind": "127.0.0.1:%d" % ports["s_req"],
           "auth": {"required": True, "users": [{"username": "alice", "password": "secret"}, {"username": "carol", "password": ""}]}},
          {"name": "s_opt", "type": "socks", "bind": "127.0.0.1:%d" % ports["s_opt"],
           "auth": {"required": False, "users": [{"username": "alice", "password": "secret"}]}}]
    for k in ("http", "socks"):
        for pol in ("none", "optional", "required"):
            tls = {"cert": FX + "/server.crt", "key": FX + "/server.key"}
            if pol != "none":
                tls["client"] = {"ca": FX + "/ca.crt", "required": pol == "required"}
            ls.append({"name": "l_%s_%s" % (k, pol), "type": k, "bind": "127.0.0.1:%d" % ports["l_%s_%s" % (k, pol)], "tls": tls})
    cfg = ("apiVersion: v1alpha\nkind: ProxyDefinition\nmetrics:\n  bind: \"127.0.0.1:%d\"\n  ui: null\nlisteners:\n%s\nconnectors:\n  - name: direct\nrules:\n  - target: direct\n"
           % (ports["api"], scen.yaml_list(ls)))
    p1 = bb.Proxy("c07_p1", wd, cfg).start(wait_ports=[ports["api"]])
    nneg = 0
    ctl = {k: 0 for k in ("neg_required", "neg_optional", "neg_required_udp", "neg_optional_udp", "socks4", "ltls_http", "ltls_socks", "ltls_quic", "ctls_http", "ctls_socks", "ctls_quic")}
    refused = []
    step = 1
    try:
        # ---- (1) negotiation: every offer sequence x credential class, with and without `required` ----
        for i, c in enumerate(neg):
            if i % step:
                continue
            for lname, key in (("s_req", "required"), ("s_opt", "optional")):
                def neg_fn():
                    method, rep = socks5_offer(ports[lname], c["offer"], c["cred"], T, cmd=c["cmd"])
                    return (rep == 0, method, rep)
                if c["cmd"] == "connect":
                    contacted, info = observe(origin, neg_fn, c["routed_" + key])
                else:
                    # UDP ASSOCIATE: being granted a relay (reply 0) is being routed; BIND is never served
                    try:
                        info = neg_fn()
                    except OSError as e:
                        info = ("error", repr(e)[:100])
                    contacted = info[0] is True
                method, rep = (info[1], info[2]) if info[0] != "error" else (None, None)
                nneg += 1
                want = c["routed_" + key]
                ctl["neg_" + key + ("_udp" if c["cmd"] == "udp" else "")] += int(want and contacted)
                if want and not contacted:
                    refused.append(("neg", key, c["offer"], c["cred"]))
                if contacted and not want:
                    kind = "routed-without-valid-credentials"
                    v.report("auth/socks5/%s/%s/%s/%s" % (key, c["cmd"], kind, c["cred"]), {"offer": c["offer"], "cred": c["cred"], "cmd": c["cmd"], "selected": method, "reply": rep,
                                                                              "origin_contacted": contacted, "expected_routed": want,
                                                                              "expected_method": c["method_" + key]}, {"row": c, "listener": lname})
        # SOCKS4 ids against the listener that requires credentials
        for uid, want in ((b"carol", True), (b"alice", False), (b"", False), (b"mallory", False), (b"carol\xff", False)):
            def s4_fn():
                c4, rep = bb.socks4_connect(ports["s_req"], T, userid=uid)
                c4.close()
                return (bb.established(rep),)
            contacted, _ = observe(origin, s4_fn, want)
            ctl["socks4"] += int(want and contacted)
            if contacted and not want:
                v.report("auth/socks4/routed-without-valid-id", {"userid": uid.hex(), "expected_routed": want}, {"userid": uid.hex()})
        # ---- (3a) listener TLS policy x presented client certificate (http and socks listeners) ----
        nl = 0
        for c in ltls:
            if c["listener"] == "quic":
                continue
            port = ports["l_%s_%s" % (c["listener"], c["policy"])]
            def l_fn():
                ctx = tls_ctx(c["cert"])
                if c["listener"] == "http":
                    conn, rep = bb.http_connect(port, T, tls_ctx=ctx, timeout=4.0)
                else:
                    conn, rep = bb.socks5_connect(port, T, tls_ctx=ctx, timeout=4.0)
                conn.close()
                return (bb.established(rep),)
            contacted, info = observe(origin, l_fn, c["accept"])
            ok = info[0] is True
            why = info[1] if info[0] == "error" else ""
            nl += 1
            ctl["ltls_" + c["listener"]] += int(c["accept"] and contacted)
            if c["accept"] and not contacted:
                refused.append(("ltls", c["listener"], c["policy"], c["cert"], why))
            if contacted and not c["accept"]:
                v.report("auth/tls-listener/%s/%s/%s/routed-unauthenticated" % (c["listener"], c["policy"], c["cert"]),
                         {"expected_accept": c["accept"], "origin_contacted": contacted, "client_saw": why or ("established" if ok else "refused")}, {"row": c})
    finally:
        alive = p1.alive()
        p1.stop()
    if not alive:
        v.report("auth/proxy-died", str(p1.panicked())[:300], {})
    print("[c07] single-process part done %.0fs" % (time.time() - t0), flush=True)
    # ---- (3b) QUIC listener policy and (3c) connector verification: two-process topologies ----
    nq, nc = tls_two_hop(v, wd, origin, ltls, ctls, ctl, refused)
    origin.close()
    # the property only forbids routing; but a check that never saw a legitimate peer get through would be vacuous
    if any(n == 0 for n in ctl.values()):
        raise vlib.ToolError("positive controls failed (legitimate peers refused): %s; %s" % (ctl, refused[:6]))
    ev = vlib.evidence(PID, tier, "model_checking", {
        "states": hg.distinct + tg.distinct, "transitions": hg.generated + tg.generated, "traces_validated_against_impl": nh,
        "samples": [{"cache_history": hists[len(hists) // 2]["h"]}, {"negotiation_row": neg[len(neg) // 3]}, {"tls_listener_row": ltls[4]}, {"tls_connector_row": ctls[3]}],
        "evaluations": nh + nneg + nl + nq + nc, "distinct_nontrivial": nh + nneg // 2 + nl + nq + nc,
        "rule": "Auth.tla: (1) Routed(offer, required, credentials) for every ordered offer over {none, gssapi, user/pass, private} x 7 credential classes "
                "(NegSound), replayed on real SOCKS5 listeners with and without `required` (origin contacted or not), SOCKS4 ids; (2) every history "
                "of attempts / truth flips / waits of the verdict-cache model (CacheSound) replayed on the real AuthData with an external command and "
                "tokio's paused clock (verdict and whether the command ran); (3) ListenerAccepts(policy, certificate) on real http/socks/quic "
                "listeners and ConnectorEstablishes(setting, certificate) on real http/socks/quic connectors against TLS upstreams with fixture "
                "certificates (valid, foreign CA, wrong name)",
        "paused_clock_discrepancies_not_reproduced_in_real_time": unconfirmed, "positive_controls": ctl, "legitimate_but_refused": [list(map(str, r)) for r in refused[:20]], "cache_histories": nh, "negotiation_runs": nneg, "listener_tls_rows": nl + nq, "connector_tls_rows": nc, "exhaustive": True, "checker_cmd": hg.cmd,
    }, ["rustls / quinn are trusted; only the proxy's policy wiring is checked", "fixture certificates made with openssl (fixtures/mkcerts.sh)"])
    return v.finish(ev, t0)


def tls_two_hop(v, wd, origin, ltls, ctls, ctl, refused):
    """front proxy P1 -> upstream proxy P2 over TLS / QUIC. P2's listeners carry the policy / certificate variants,
    P1's connectors the client-certificate / verification variants."""
    T = ("ipv4", "127.0.0.1", origin.port)
    certs = {"valid": ("server.crt", "server.key"), "foreign": ("foreignserver.crt", "foreignserver.key"), "wrongname": ("wrongname.crt", "wrongname.key")}
    api1, api2 = bb.free_port(), bb.free_port()
    l2 = []
    c1 = []
    l1 = []
    rules = []
    ports2 = {}
    # (3b) quic listener policy x presented cert
    for pol in ("none", "optional", "required"):
        port = bb.free_port(socket.SOCK_DGRAM)
        ports2[("quicpol", pol)] = port
        tls = {"cert": FX + "/server.crt", "key": FX + "/server.key"}
        if pol != "none":
            tls["client"] = {"ca": FX + "/ca.crt", "required": pol == "required"}
        l2.append({"name": "q_" + pol, "type": "quic", "bind": "127.0.0.1:%d" % port, "tls": tls})
        for cert in ("nocert", "valid", "foreign"):
            name = "cq_%s_%s" % (pol, cert)
            tlsc = {"ca": FX + "/ca.crt"}
            if cert == "valid":
                tlsc["auth"] = {"cert": FX + "/client.crt", "key": FX + "/client.key"}
            elif cert == "foreign":
                tlsc["auth"] = {"cert": FX + "/foreignclient.crt", "key": FX + "/foreignclient.key"}
            c1.append({"name": name, "type": "quic", "server": "localhost", "port": port, "bind": "127.0.0.1:0", "tls": tlsc})
    # (3c) connector verification x upstream certificate, for http / socks / quic upstream listeners
    for kind in ("http", "socks", "quic"):
        for cert, (crt, key) in certs.items():
            port = bb.free_port(socket.SOCK_DGRAM if kind == "quic" else socket.SOCK_STREAM)
            ports2[(kind, cert)] = port
            l2.append({"name": "u_%s_%s" % (kind, cert), "type": kind, "bind": "127.0.0.1:%d" % port, "tls": {"cert": FX + "/" + crt, "key": FX + "/" + key}})
            for setting in ("verify_ca", "insecure", "default_roots"):
                for nf, server in (("dns", "localhost"), ("ip", "127.0.0.1")):
                    name = "cc_%s_%s_%s_%s" % (kind, setting, cert, nf)
                    tlsc = {"insecure": setting == "insecure"}
                    if setting != "default_roots":
                        tlsc["ca"] = FX + "/ca.crt"
                    d = {"name": name, "type": kind, "server": server, "port": port, "tls": tlsc}
                    if kind == "quic":
                        d["bind"] = "127.0.0.1:0"
                    c1.append(d)
    lports = {}
    for c in c1:
        p = bb.free_port()
        lports[c["name"]] = p
        l1.append({"name": "in_" + c["name"], "type": "http", "bind": "127.0.0.1:%d" % p})
        rules.append({"filter": 'request.listener == "in_%s"' % c["name"], "target": c["name"]})
    head = "apiVersion: v1alpha\nkind: ProxyDefinition\n"
    cfg1 = head + "metrics:\n  bind: \"127.0.0.1:%d\"\n  ui: null\nlisteners:\n%s\nconnectors:\n%s\nrules:\n%s\n" % (api1, scen.yaml_list(l1), scen.yaml_list(c1), scen.yaml_list(rules))
    cfg2 = head + "metrics:\n  bind: \"127.0.0.1:%d\"\n  ui: null\nlisteners:\n%s\nconnectors:\n  - name: direct\nrules:\n  - target: direct\n" % (api2, scen.yaml_list(l2))
    p2 = bb.Proxy("c07_p2", wd, cfg2).start(wait_ports=[api2])
    p1 = bb.Proxy("c07_p1b", wd, cfg1).start(wait_ports=[api1])
    nq = nc = 0

    def attempt(conn_name, expect):
        def fn():
            c, rep = bb.http_connect(lports[conn_name], T, timeout=8.0)
            c.close()
            return (bb.established(rep),)
        contacted, info = observe(origin, fn, expect)
        return info[0] is True, contacted
    try:
        for c in ltls:
            if c["listener"] != "quic":
                continue
            est, contacted = attempt("cq_%s_%s" % (c["policy"], c["cert"]), c["accept"])
            nq += 1
            ctl["ltls_quic"] += int(c["accept"] and contacted)
            if c["accept"] and not contacted:
                refused.append(("ltls", "quic", c["policy"], c["cert"]))
            if contacted and not c["accept"]:
                v.report("auth/tls-listener/quic/%s/%s/routed-unauthenticated" % (c["policy"], c["cert"]),
                         {"expected_accept": c["accept"], "origin_contacted": contacted, "client_told_established": est}, {"row": c})
        for c in ctls:
            est, contacted = attempt("cc_%s_%s_%s_%s" % (c["connector"], c["setting"], c["cert"], c["name"]), c["establish"])
            nc += 1
            ctl["ctls_" + c["connector"]] += int(c["establish"] and contacted)
            if c["establish"] and not contacted:
                refused.append(("ctls", c["connector"], c["setting"], c["cert"]))
            if (est or contacted) and not c["establish"]:
                v.report("auth/tls-connector/%s/%s/%s/%s/tunnel-through-unverified-upstream" % (c["connector"], c["setting"], c["cert"], c["name"]),
                         {"expected_establish": c["establish"], "origin_contacted": contacted, "client_told_established": est}, {"row": c})
    finally:
        ok = p1.alive() and p2.alive()
        p1.stop()
        p2.stop()
    if not ok:
        v.report("auth/proxy-died/two-hop", str(p1.panicked() or p2.panicked())[:300], {})
    return nq, nc


def replay(path):
    r = json.load(open(path))
    rp = r["replay"]
    if "case" in rp:
        wd = vlib.workdir("c07_replay")
        p = os.path.join(wd, "case.ndjson")
        vlib.write_ndjson(p, [rp["case"]])
        rc, out, err = vlib.vh(["auth", p, wd])
        print(out)
    else:
        print(json.dumps(rp)[:2000])
    return 0

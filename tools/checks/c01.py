"""C01 - TCP tunnel byte-stream fidelity. TLA+: Relay.tla (Conservation, PrefixOnly), GenRelay, TraceRelay."""
from checks.relay_run import run_relay


def run(tier, t0):
    return run_relay("C01", tier, t0)


def replay(path):
    import json
    print(json.dumps(json.load(open(path))["replay"])[:3000])
    return 0

"""C13 - idle tunnels are closed after the configured timeout and only then. TLA+: Relay.tla (Tick, IdleAbort,
IdleOnlyWhenIdle), TraceIdle (TraceRelay + the proxy's own clock readings)."""
import json, os, socket, threading, time
import vlib, bb, scen

PID = "C13"


def tcp_pattern(topo, proto, up, origin, pattern, idle, tag):
    """returns result dict with scn/obs + sport"""
    T = ("ipv4", "127.0.0.1", origin.port)
    c, rep = topo.open(proto, up, T)
    res = {"tag": tag, "proto": proto, "up": up, "pattern": pattern, "sport": c.s.getsockname()[1], "established": bb.established(rep)}
    if not res["established"]:
        c.close()
        return res
    o = origin.accept(3.0)
    sent = {"c2s": 0, "s2c": 0}
    sc = bb.payload(tag + "c", 64)
    so = bb.payload(tag + "s", 64)
    expect_close = idle > 0
    t0 = time.time()
    if pattern == "silent":
        pass
    elif pattern == "trickle":
        # one direction only, a byte every 0.55 x period, for about 2.5 periods: must stay open meanwhile
        per = max(idle, 1) * 0.55
        stamps = []
        for k in range(5):
            c.send(sc[sent["c2s"]:sent["c2s"] + 1])
            stamps.append(time.time())
            sent["c2s"] += 1
            o.recv_some(timeout=1.0, want=1)
            time.sleep(per)
            if c.recv_some(timeout=0.01, want=1) == 0 and (c.eof or c.err):
                break
        res["open_during_trickle"] = not (c.eof or c.err is not None)
        res["trickle_max_gap"] = max([b - a for a, b in zip(stamps, stamps[1:])] + [time.time() - stamps[-1]])
    elif pattern == "trickle_s2c":
        # a download: only the origin sends, the client stays silent; the tunnel is not idle
        per = max(idle, 1) * 0.55
        stamps = []
        for k in range(5):
            o.send(so[sent["s2c"]:sent["s2c"] + 1])
            stamps.append(time.time())
            sent["s2c"] += 1
            c.recv_some(timeout=1.0, want=1)
            if c.eof or c.err is not None:
                break
            time.sleep(per)
            if o.recv_some(timeout=0.01, want=1) == 0 and (o.eof or o.err):
                break
        res["open_during_trickle"] = not (c.eof or c.err is not None or o.eof or o.err is not None)
        res["trickle_max_gap"] = max([b - a for a, b in zip(stamps, stamps[1:])] + [time.time() - stamps[-1]])
    elif pattern == "burst":
        c.send(sc[:10]); sent["c2s"] = 10
        o.recv_some(timeout=1.0, want=10)
        o.send(so[:10]); sent["s2c"] = 10
        c.recv_some(timeout=1.0, want=10)
    elif pattern == "burst_fin":
        # payload both ways, silence, then one side half-closes without sending anything: an end of stream is not traffic -
        # the period still counts from the last payload byte
        c.send(sc[:10]); sent["c2s"] = 10
        o.recv_some(timeout=1.0, want=10)
        o.send(so[:10]); sent["s2c"] = 10
        c.recv_some(timeout=1.0, want=10)
        t_last = time.time()
        time.sleep(max(idle, 1) * 0.75)
        c.fin()
        res["fin_after_s"] = round(time.time() - t_last, 2)
    # now silence: wait for the proxy to close (or not)
    wait = (idle + 6.0) if idle > 0 else 4.0
    t_sil = time.time()
    end = t_sil + wait
    while time.time() < end and not (c.eof or c.err is not None):
        c.recv_some(timeout=0.25, want=1)
    closed = bool(c.eof or c.err is not None)
    res["closed_after_s"] = round(time.time() - t_sil, 2) if closed else None
    ending = {"c2s": "open", "s2c": "open"}
    finned = {"c2s": False, "s2c": False}
    if pattern == "burst_fin":
        ending["c2s"] = "fin"
        finned["c2s"] = True
    if not closed:
        # positive control: the tunnel still works, then close it gracefully
        if not finned["c2s"]:
            c.send(sc[sent["c2s"]:sent["c2s"] + 1]); sent["c2s"] += 1
            o.recv_some(timeout=1.5, want=1)
        o.send(so[sent["s2c"]:sent["s2c"] + 1]); sent["s2c"] += 1
        c.recv_some(timeout=1.5, want=1)
        if not finned["c2s"]:
            c.fin()
        o.recv_until_eof(2.0); o.fin(); c.recv_until_eof(2.0)
        ending = {"c2s": "fin", "s2c": "fin"}
        finned = {"c2s": True, "s2c": True}
    else:
        o.recv_until_eof(2.0)
    res["closed"] = closed
    res["expect_close"] = expect_close
    res["scn"] = {"ev": "scn", "sent": sent, "ending": ending, "finned": finned, "idle_ms": idle * 1000}
    res["obs"] = {"ev": "obs", "recv": {"c2s": len(o.rx), "s2c": len(c.rx)}, "eof": {"c2s": bool(o.eof or o.err is not None), "s2c": bool(c.eof or c.err is not None)}}
    c.close(); o.close()
    return res


def udp_pattern(topo_udp, udp_idle, tag):
    """reverse UDP listener -> direct -> UDP origin: a few datagrams, then silence"""
    s = socket.socket(socket.AF_INET, socket.SOCK_DGRAM)
    s.bind(("127.0.0.1", 0))
    s.settimeout(0.05)
    for k in range(3):
        s.sendto(b"dgram%d" % k, ("127.0.0.1", topo_udp["port"]))
        try:
            s.recvfrom(2000)
        except socket.timeout:
            pass
        time.sleep(0.1)
    sport = s.getsockname()[1]
    time.sleep(udp_idle + 3.5 if udp_idle > 0 else 4.0)
    s.close()
    return {"tag": tag, "sport": sport}


def run(tier, t0):
    v = vlib.Verdicts(PID)
    wd = vlib.workdir("c13")
    thorough = tier == "thorough"
    vlib.build_harness()
    mc = vlib.tlc_must_pass(vlib.run_tlc("Relay", "MCRelay.cfg", workers=8, timeout=1800), "MCRelay")
    # (configured idle, configured udp); None = key absent (default 600)
    # incl. one period disabled (0) next to the other one enabled: the two settings must not leak into each other
    # (4, 3): periods clearly above the timer's one-second granularity - "closed within period + 2.5 s" then also says that the
    # check runs every second, not once per period
    configs = [(1, 2), (2, 1), (0, 0), (None, None), (2, 0), (0, 1), (None, 1), (2, None), (4, 3)] if not thorough else \
        [(1, 2), (2, 1), (3, 5), (5, 3), (0, 0), (None, None), (2, 0), (0, 1), (3, 0), (None, 1), (2, None), (None, 0)]
    listeners = [("http", "direct"), ("socks5", "direct"), ("socks4", "upsocks5"), ("reverse", "direct"), ("http", "uphttp")]
    ntr = 0
    ntun = 0
    samples = []
    all_threads = []
    results_by_cfg = {}

    def run_cfg(idle, udp):
        tag = "i%s_u%s" % (idle, udp)
        rev_origin = bb.TcpOrigin()
        uorg = bb.UdpOrigin()
        uport = bb.free_port(socket.SOCK_DGRAM)
        t = scen.Topology(wd, "c13_" + tag, splice=(idle != 2), idle=600 if idle is None else idle, udp=600 if udp is None else udp,
                          reverse_target="127.0.0.1:%d" % rev_origin.port)
        if idle is None and udp is None:
            # timeouts section absent altogether
            t.cfg1 = t.cfg1.replace("timeouts:\n  idle: 600\n  udp: 600\n", "")
        elif idle is None:
            # the section is there, this key is not: the default (600 s) applies to it
            t.cfg1 = t.cfg1.replace("timeouts:\n  idle: 600\n", "timeouts:\n")
        elif udp is None:
            t.cfg1 = t.cfg1.replace("  udp: 600\n", "")
        t.cfg1 = t.cfg1.replace("listeners:\n", "listeners:\n  - name: udprev_direct\n    type: reverse\n    bind: 127.0.0.1:%d\n    target: 127.0.0.1:%d\n    protocol: udp\n" % (uport, uorg.port), 1)
        t.start()
        eff_idle = 600 if idle is None else idle
        eff_udp = 600 if udp is None else udp
        res = []
        lock = threading.Lock()

        def job(proto, up, pattern, k):
            org = rev_origin if proto == "reverse" else bb.TcpOrigin()
            r = tcp_pattern(t, proto, up, org, pattern, eff_idle if eff_idle < 600 else 0, "%s/%s/%s/%s" % (tag, proto, up, pattern))
            r["eff_idle"] = eff_idle
            with lock:
                res.append(r)
            if org is not rev_origin:
                org.close()
        ths = []
        k = 0
        for proto, up in listeners:
            pats = ["silent", "burst", "trickle", "trickle_s2c", "burst_fin"] if (proto, up) in (("http", "direct"), ("socks5", "direct")) or thorough else ["silent"]
            if proto == "reverse":
                pats = ["silent"]      # one origin connection at a time on the reverse listener
            for pattern in pats:
                th = threading.Thread(target=job, args=(proto, up, pattern, k))
                th.start()
                ths.append(th)
                k += 1
        ud = {}
        thu = threading.Thread(target=lambda: ud.update(udp_pattern({"port": uport}, eff_udp if eff_udp < 600 else 0, tag + "/udp")))
        thu.start()
        ths.append(thu)
        for th in ths:
            th.join()
        time.sleep(1.3)
        alive = t.p1.alive()
        t.stop()
        rev_origin.close(); uorg.close()
        results_by_cfg[tag] = (t, res, ud, eff_idle, eff_udp, alive)

    # the configurations are independent processes: run them side by side (the waits dominate)
    ths = [threading.Thread(target=run_cfg, args=c) for c in configs]
    for th in ths:
        th.start()
    for th in ths:
        th.join()
    for tag, (t, res, ud, eff_idle, eff_udp, alive) in results_by_cfg.items():
        if not alive:
            v.report("idle/proxy-died/%s" % tag, t.p1.panicked() or "", {"tag": tag})
        trace = t.p1.trace()
        cfgs = [e for e in trace if e["ev"] == "cfg"]
        lines = []
        for r in res:
            ntun += 1
            if not r.get("established"):
                raise vlib.ToolError("tunnel not established in %s: %s" % (tag, r))
            cid = scen.ctx_of_source(trace, r["sport"], "%s_%s" % (r["proto"], r["up"]))
            if cid is None:
                continue
            evs = scen.conn_events(trace, cid)
            scn = dict(r["scn"])
            scn["idle_ms"] = eff_idle * 1000
            if r["up"] == "direct":
                # single hop: both peers of this proxy are the driver's own sockets, the trace is exact
                lines.append(scn)
                for e in evs:
                    lines.append({k: v for k, v in e.items() if k not in ("splice", "streams", "frames", "error")})
                lines.append(r["obs"])
            else:
                # behind a second hop the upstream peer runs its own idle timer; only wiring + driver-side outcome are judged
                for e in evs:
                    if e["ev"] == "relay_begin" and e["idle_ms"] != eff_idle * 1000:
                        v.report("idle/wrong-period/%s" % r["up"], {"configured_idle": eff_idle, "relay_idle_ms": e["idle_ms"]}, {"tag": r["tag"]})
            # driver-side expectations next to a positive control: closed iff a period is configured (+ granularity)
            rep = {"scenario": {k: r[k] for k in ("tag", "pattern", "closed", "closed_after_s", "expect_close")}, "events": evs[:30]}
            if r["expect_close"] != r["closed"]:
                v.report("idle/%s/%s" % ("not-closed" if r["expect_close"] else "closed-although-disabled", r["pattern"]),
                         {"tag": r["tag"], "configured_idle": eff_idle, "closed_after_s": r["closed_after_s"],
                          "relay_idle_ms": [e.get("idle_ms") for e in evs if e["ev"] == "relay_begin"]}, rep)
            # only conclusive when the driver really kept its gaps under the period (a busy machine may stretch a sleep)
            if r.get("open_during_trickle") is False and r.get("trickle_max_gap", 0) < 0.8 * max(eff_idle, 1):
                v.report("idle/closed-while-trickling", {"tag": r["tag"], "configured_idle": eff_idle}, rep)
        if lines:
            tp = os.path.join(wd, "idle_%s.ndjson" % tag)
            vlib.write_ndjson(tp, lines)
            acc, info, tr = vlib.validate_trace("TraceIdle", "TraceIdle.cfg", tp, timeout=1200, name="trace_idle_" + tag, dfs=False)
            ntr += 1
            if not acc:
                keep = os.path.join(vlib.EVID, "replay", "trace_C13_%s.ndjson" % tag)
                os.makedirs(os.path.dirname(keep), exist_ok=True)
                vlib.write_ndjson(keep, lines)
                v.report("idle/trace-rejected/%s" % tag, {"info": info[:500], "cfg_event": cfgs[:1]},
                         {"trace": keep, "cmd": "cd spec && TRACE=%s tlc -workers 1 -config TraceIdle.cfg TraceIdle.tla" % keep})
            samples.append({"config": tag, "trace_prefix": lines[:8]})
        # UDP association: wiring + timing from the proxy's own events
        if ud.get("sport"):
            cands = [e["id"] for e in trace if e["ev"] == "ctx_new" and e["listener"] == "udprev_direct" and e["source"].endswith(":%d" % ud["sport"])]
            cid = cands[0] if cands else None       # the session created by the first datagram
            evs = scen.conn_events(trace, cid) if cid is not None else []
            rb = [e for e in evs if e["ev"] == "relay_begin"]
            rep = {"tag": tag, "events": evs[:30]}
            if not rb:
                v.report("idle/udp/no-session", {"tag": tag}, rep)
            else:
                if rb[0]["idle_ms"] != eff_udp * 1000:
                    v.report("idle/udp/wrong-period", {"configured_udp": eff_udp, "relay_idle_ms": rb[0]["idle_ms"]}, rep)
                xt = [e["t"] for e in evs if e["ev"] == "xfer"]
                err = [e for e in evs if e["ev"] == "state" and e["st"] == "ErrorOccured"]
                if eff_udp and eff_udp < 600:
                    if not err:
                        v.report("idle/udp/not-closed", {"configured_udp": eff_udp}, rep)
                    elif xt and not (eff_udp * 1000 < err[0]["t"] - max(xt) <= eff_udp * 1000 + 2500):
                        v.report("idle/udp/timing", {"configured_udp": eff_udp, "idle_for_ms": err[0]["t"] - max(xt)}, rep)
                elif err:
                    v.report("idle/udp/closed-although-disabled", {"configured_udp": eff_udp}, rep)
    ev = vlib.evidence(PID, tier, "model_checking", {
        "states": mc.distinct, "transitions": mc.generated, "traces_validated_against_impl": ntr,
        "samples": samples[:2], "evaluations": ntun, "distinct_nontrivial": ntun,
        "rule": "Relay.tla (Tick / IdleAbort / IdleOnlyWhenIdle) in MCRelay; real processes started with timeouts.idle/udp in "
                "{absent, 0, 1, 2, ...}; per listener kind the patterns silent / burst-then-silence / one-directional trickle at 0.55x the "
                "period; each tunnel's hook events with the proxy's own clock readings are validated by TraceIdle (period wired as "
                "configured, abort only when both directions idle longer than the period, and within period + 2.5 s); UDP association "
                "period and timing from the same events",
        "configs": [list(c) for c in configs], "exhaustive": False, "checker_cmd": mc.cmd,
    }, ["timing is judged from the proxy's own event timestamps; driver stop-watches only decide 'closed at all / still usable' with >= 3 s margins",
        "a period of 600 s (default) is only checked for wiring and for 'not closed within 4 s'"])
    return v.finish(ev, t0)


def replay(path):
    print(json.dumps(json.load(open(path))["replay"])[:3000])
    return 0

"""C10 - UDP datagram fidelity and session isolation through every UDP path.
TLA+: Udp.tla (sessions, first datagram hand-over, replies, receive errors; MCUdp), UdpObs (terminal predicates on observations)."""
import json, os, socket, struct, threading, time
import vlib, bb, scen

PID = "C10"
FX = bb.FIX


def tagged(sess, seq, n):
    head = b"S%03d#%04d#%05d|" % (sess, seq, n)
    if n < len(head):
        return head[:n]
    return head + bb.payload("udp%d:%d" % (sess, seq), n - len(head))


def parse_tag(p):
    try:
        if p[:1] != b"S" or p[15:16] != b"|":
            return None
        sess, seq, n = int(p[1:4]), int(p[5:9]), int(p[10:15])
        return sess, seq, n, p == tagged(sess, seq, n)
    except ValueError:
        return None


def socks_udp_wrap(dst, payload):
    kind, host, port = dst
    if kind == "ipv4":
        a = b"\x01" + socket.inet_aton(host)
    elif kind == "ipv6":
        a = b"\x04" + socket.inet_pton(socket.AF_INET6, host)
    else:
        a = b"\x03" + bytes([len(host)]) + host.encode()
    return b"\x00\x00\x00" + a + struct.pack(">H", port) + payload


def socks_udp_unwrap(data):
    if len(data) < 4:
        return None, data
    atyp = data[3]
    if atyp == 1 and len(data) >= 10:
        return ("ipv4", socket.inet_ntoa(data[4:8]), struct.unpack(">H", data[8:10])[0]), data[10:]
    if atyp == 4 and len(data) >= 22:
        return ("ipv6", socket.inet_ntop(socket.AF_INET6, data[4:20]), struct.unpack(">H", data[20:22])[0]), data[22:]
    if atyp == 3 and len(data) >= 5:
        n = data[4]
        return ("domain", data[5:5 + n].decode("latin1"), struct.unpack(">H", data[5 + n:7 + n])[0]), data[7 + n:]
    return None, data


class FakeSocksUdpUpstream:
    """a foreign SOCKS5 server on its own address: UDP ASSOCIATE only; it announces its relay as 0.0.0.0:port (the client is
    to use the address it reached the server at) and relays datagrams to IPv4 / `localhost` destinations and back"""

    def __init__(self, host):
        self.host = host
        self.ls = socket.socket(socket.AF_INET, socket.SOCK_STREAM)
        self.ls.setsockopt(socket.SOL_SOCKET, socket.SO_REUSEADDR, 1)
        self.ls.bind((host, 0))
        self.ls.listen(32)
        self.port = self.ls.getsockname()[1]
        self.stop = False
        threading.Thread(target=self._run, daemon=True).start()

    def _run(self):
        self.ls.settimeout(0.2)
        while not self.stop:
            try:
                s, _ = self.ls.accept()
            except socket.timeout:
                continue
            except OSError:
                return
            threading.Thread(target=self._serve, args=(s,), daemon=True).start()

    def _serve(self, s):
        try:
            s.settimeout(5)
            buf = b""
            while len(buf) < 2 or len(buf) < 2 + buf[1]:
                d = s.recv(512)
                if not d:
                    return
                buf += d
            buf = buf[2 + buf[1]:]
            s.sendall(b"\x05\x00")
            while len(buf) < 10:
                d = s.recv(512)
                if not d:
                    return
                buf += d
            relay = socket.socket(socket.AF_INET, socket.SOCK_DGRAM)
            relay.bind((self.host, 0))          # the relay answers from the address the client talks to
            out = socket.socket(socket.AF_INET, socket.SOCK_DGRAM)
            out.bind(("127.0.0.1", 0))
            s.sendall(b"\x05\x00\x00\x01\x00\x00\x00\x00" + struct.pack(">H", relay.getsockname()[1]))
            client = [None]
            s.settimeout(0.1)
            relay.settimeout(0.05)
            out.settimeout(0.01)
            while not self.stop:
                try:
                    d, a = relay.recvfrom(70000)
                    client[0] = a
                    dst, p = socks_udp_unwrap(d)
                    if dst is not None:
                        out.sendto(p, ("127.0.0.1" if dst[0] == "domain" else dst[1], dst[2]))
                except socket.timeout:
                    pass
                while True:
                    try:
                        d, a = out.recvfrom(70000)
                    except socket.timeout:
                        break
                    if client[0]:
                        relay.sendto(socks_udp_wrap(("ipv4", a[0], a[1]), d), client[0])
                try:
                    if s.recv(16) == b"":
                        break
                except socket.timeout:
                    pass
            relay.close(); out.close()
        except OSError:
            pass
        finally:
            s.close()

    def close(self):
        self.stop = True
        try:
            self.ls.close()
        except OSError:
            pass


def quic_yaml(p2_quic, inline):
    return ("  - name: upquic%s\n    type: quic\n    server: localhost\n    port: %d\n    bind: \"127.0.0.1:0\"\n    inlineUdp: %s\n    tls:\n      ca: %s/ca.crt\n"
            % ("i" if inline else "", p2_quic, "true" if inline else "false", FX))


class UdpTopo:
    def __init__(self, wd, origin4_port):
        self.api1, self.api2 = bb.free_port(), bb.free_port()
        self.p2_http, self.p2_socks = bb.free_port(), bb.free_port()
        self.p2_quic = bb.free_port(socket.SOCK_DGRAM)
        self.fake_b = FakeSocksUdpUpstream("127.0.0.2")
        self.p2_socks_b = self.fake_b.port
        # upsocks5b: the upstream SOCKS proxy lives on another address than our end of the control connection and
        # announces its UDP relay as 0.0.0.0:port ("same host as this connection", RFC 1928 practice)
        self.ups = ["direct", "uphttp", "upsocks5", "upquic", "upquici", "upsocks5b"]
        self.rev = {u: bb.free_port(socket.SOCK_DGRAM) for u in self.ups}
        self.socks = {u: bb.free_port() for u in self.ups}
        ls = ""
        for u in self.ups:
            ls += "  - name: udprev_%s\n    type: reverse\n    bind: 127.0.0.1:%d\n    target: 127.0.0.1:%d\n    protocol: udp\n" % (u, self.rev[u], origin4_port)
            ls += "  - name: socks_%s\n    type: socks\n    bind: 127.0.0.1:%d\n    allowUdp: true\n" % (u, self.socks[u])
        conns = ("  - name: direct\n    dns:\n      servers: system\n      family: V4Only\n  - name: uphttp\n    type: http\n    server: 127.0.0.1\n    port: %d\n"
                 "  - name: upsocks5\n    type: socks\n    server: 127.0.0.1\n    port: %d\n"
                 "  - name: upsocks5b\n    type: socks\n    server: 127.0.0.2\n    port: %d\n" % (self.p2_http, self.p2_socks, self.p2_socks_b)) + quic_yaml(self.p2_quic, False) + quic_yaml(self.p2_quic, True)
        rules = "".join("  - filter: 'request.listener =~ \"_%s$\"'\n    target: %s\n" % (u, u) for u in self.ups)
        head = "apiVersion: v1alpha\nkind: ProxyDefinition\ntimeouts:\n  idle: 600\n  udp: 600\n"
        self.cfg1 = head + "metrics:\n  bind: \"127.0.0.1:%d\"\n  ui: null\nlisteners:\n%sconnectors:\n%srules:\n%s" % (self.api1, ls, conns, rules)
        self.cfg2 = head + ("metrics:\n  bind: \"127.0.0.1:%d\"\n  ui: null\nlisteners:\n  - name: http\n    bind: 127.0.0.1:%d\n  - name: socks\n    bind: 127.0.0.1:%d\n"
                            "  - name: quic\n    bind: 127.0.0.1:%d\n    tls:\n      cert: %s/server.crt\n      key: %s/server.key\n"
                            "connectors:\n  - name: direct\n    dns:\n      servers: system\n      family: V4Only\nrules:\n  - target: direct\n") % (self.api2, self.p2_http, self.p2_socks, self.p2_quic, FX, FX)
        self.wd = wd

    def start(self):
        self.p2 = bb.Proxy("udp_p2", self.wd, self.cfg2).start(wait_ports=[self.api2])
        self.p1 = bb.Proxy("udp_p1", self.wd, self.cfg1).start(wait_ports=[self.api1])
        return self

    def stop(self):
        self.p1.stop(); self.p2.stop()
        self.fake_b.close()


class Session:
    """one client UDP socket = one session; mode reverse (plain datagrams to the listener) or socks (UDP ASSOCIATE)"""

    def __init__(self, sid, topo, up, mode):
        self.sid, self.up, self.mode = sid, up, mode
        self.s = socket.socket(socket.AF_INET, socket.SOCK_DGRAM)
        self.s.bind(("127.0.0.1", 0))
        self.s.settimeout(0.05)
        self.ctrl = None
        self.rx = []
        self.sent = []           # (seq, dst, n)
        if mode == "reverse":
            self.relay = ("127.0.0.1", topo.rev[up])
        else:
            self.ctrl, rep = bb.socks5_connect(topo.socks[up], ("ipv4", "0.0.0.0", 0), cmd=3, timeout=8.0)
            if not bb.established(rep):
                raise vlib.ToolError("UDP ASSOCIATE refused on socks_%s: %s" % (up, rep))
            host = socket.inet_ntoa(rep["bind"]) if rep["atyp"] == 1 else "127.0.0.1"
            self.relay = (host if host != "0.0.0.0" else "127.0.0.1", rep["bind_port"])

    def send(self, seq, dst, n):
        p = tagged(self.sid, seq, n)
        self.sent.append((seq, dst, n))
        data = p if self.mode == "reverse" else socks_udp_wrap(dst, p)
        self.s.sendto(data, self.relay)

    def send_raw(self, dst, payload):
        self.tiny_sent = getattr(self, "tiny_sent", 0) + 1
        self.s.sendto(payload if self.mode == "reverse" else socks_udp_wrap(dst, payload), self.relay)

    def poll(self):
        while True:
            try:
                d, a = self.s.recvfrom(70000)
            except (socket.timeout, OSError):
                return
            self.rx.append((d, a))

    def close(self):
        self.s.close()
        if self.ctrl:
            self.ctrl.close()


def run_path(topo, up, mode, origins, sizes, nsess, per, sid0):
    sessions = [Session(sid0 + k, topo, up, mode) for k in range(nsess)]
    dsts = [("ipv4", "127.0.0.1", origins[0].port)] if mode == "reverse" else \
        [("ipv4", "127.0.0.1", origins[0].port), ("domain", "localhost", origins[0].port), ("ipv4", "127.0.0.1", origins[1].port),
         ("domain", "localhost", origins[1].port)]      # the same name on two ports within one session
    # a session that starts with a burst: its first datagrams are all on the listener's socket before the session exists
    burst = Session(sid0 + nsess, topo, up, mode)
    for seq in range(30):          # more than any per-session queue of the proxy holds (10 slots on the QUIC datagram path)
        burst.send(seq, dsts[seq % len(dsts)], 100 + seq)
    sessions.append(burst)
    time.sleep(0.3)
    burst.poll()
    for seq in range(per):
        for s in sessions[:nsess]:            # interleaved traffic of all sessions
            dst = dsts[(seq + s.sid) % len(dsts)]
            s.send(seq, dst, sizes[(seq + s.sid) % len(sizes)])
            time.sleep(0.004)
        for s in sessions:
            s.poll()
    # payloads too small to carry a tag: 0, 1 and 2 bytes (an empty datagram is a datagram, not an end of stream)
    for p in (b"", b"x", b"ab"):
        for s in sessions:
            s.send_raw(dsts[0], p)
            time.sleep(0.004)
    end = time.time() + 2.5
    while time.time() < end:
        for s in sessions:
            s.poll()
        time.sleep(0.05)
    return sessions


def judge(sessions, origins, mode, listener_addr):
    recs = []
    allgot = []
    for oi, o in enumerate(origins):
        for p, a in list(o.got):
            allgot.append((oi, p))
    by_sess = {}
    fabricated = 0
    tiny_at_origin = sorted(len(p) for oi, p in allgot if len(p) <= 2 and oi == 0)
    tiny_expected = sorted([0, 1, 2] * sum(1 for s in sessions if getattr(s, "tiny_sent", 0)))
    for oi, p in allgot:
        if len(p) <= 2 and oi == 0:
            continue
        t = parse_tag(p)
        if t is None:
            fabricated += 1
            continue
        by_sess.setdefault(t[0], []).append((oi, t, p))
    for s in sessions:
        at_origin = [0] * len(s.sent)
        misdelivered = corrupted = 0
        for oi, t, p in by_sess.get(s.sid, []):
            sess, seq, n, intact = t
            if seq >= len(s.sent):
                misdelivered += 1
                continue
            want_origin = 0 if s.sent[seq][1][2] == origins[0].port else 1
            if oi != want_origin:
                misdelivered += 1
            elif not intact or n != s.sent[seq][2]:
                corrupted += 1
            else:
                at_origin[seq] += 1
        replies = [0] * len(s.sent)
        foreign = mislabelled = 0
        tiny_replies = []
        for d, a in s.rx:
            if s.mode == "socks":
                frm, p = socks_udp_unwrap(d)
            else:
                frm, p = ("listener", a[0], a[1]), d
            if not p.startswith(b"R:"):
                foreign += 1
                continue
            if len(p) <= 4 and p[2:] in (b"", b"x", b"ab"):
                tiny_replies.append(len(p) - 2)
                continue
            t = parse_tag(p[2:])
            if t is None or t[0] != s.sid or not t[3] or t[1] >= len(s.sent):
                foreign += 1
                continue
            replies[t[1]] += 1
            dst = s.sent[t[1]][1]
            if s.mode == "socks":
                exp_host = "127.0.0.1"
                if frm is None or frm[1] != exp_host or frm[2] != dst[2]:
                    mislabelled += 1
            elif (a[0], a[1]) != listener_addr:
                mislabelled += 1
        recs.append({"session": s.sid, "up": s.up, "mode": s.mode, "sent": len(s.sent), "at_origin": at_origin, "misdelivered": misdelivered, "corrupted": corrupted,
                     "replies": replies, "foreign_replies": foreign, "mislabelled": mislabelled, "fabricated_at_origin": 0,
                     "tiny_replies": sorted(tiny_replies) or [-1], "tiny_at_origin": tiny_at_origin or [-1], "tiny_expected_at_origin": tiny_expected or [-1],
                     "sizes": [x[2] for x in s.sent][:8]})
    return recs, fabricated


def loss_only(recs, fabricated):
    """some datagram or reply is missing, and nothing else is wrong"""
    if fabricated or not recs:
        return False
    missing = False
    for r in recs:
        if r["misdelivered"] or r["corrupted"] or r["foreign_replies"] or r["mislabelled"]:
            return False
        if any(n > 1 for n in r["at_origin"]) or any(n > 1 for n in r["replies"]):
            return False
        if any(n == 0 for n in r["at_origin"]) or any(n == 0 for n in r["replies"]):
            missing = True
        if r["tiny_at_origin"] != r["tiny_expected_at_origin"] or r["tiny_replies"] not in ([0, 1, 2], [-1]):
            if len([x for x in r["tiny_at_origin"] if x >= 0]) > len([x for x in r["tiny_expected_at_origin"] if x >= 0]):
                return False          # more than was sent: not a loss
            missing = True
    return missing


def run(tier, t0):
    v = vlib.Verdicts(PID)
    wd = vlib.workdir("c10")
    thorough = tier == "thorough"
    vlib.build_harness()
    mc = vlib.tlc_must_pass(vlib.run_tlc("MCUdp", "MCUdp.cfg", workers=8, timeout=900), "MCUdp")
    sizes = [20, 100, 1200, 1472, 3000, 9000] + ([30000, 60000] if thorough else [20000])
    paths = [("direct", "reverse"), ("direct", "socks"), ("uphttp", "reverse"), ("uphttp", "socks"), ("upsocks5", "reverse"), ("upsocks5", "socks"),
             ("upquic", "reverse"), ("upquic", "socks"), ("upquici", "reverse"), ("upquici", "socks"), ("upsocks5b", "socks"), ("upsocks5b", "reverse")]
    all_recs = []
    sid = 1
    reruns = []
    for up, mode in paths:
        for attempt in range(3):
            origins = [bb.UdpOrigin("127.0.0.1"), bb.UdpOrigin("127.0.0.1")]
            topo = UdpTopo(wd, origins[0].port).start()
            try:
                sessions = run_path(topo, up, mode, origins, sizes, 8 if thorough else 3, 12 if thorough else 6, sid)
            finally:
                alive = topo.p1.alive() and topo.p2.alive()
                panic = topo.p1.panicked() or topo.p2.panicked()
            sid += len(sessions)
            recs, fabricated = judge(sessions, origins, mode, ("127.0.0.1", topo.rev[up]))
            if recs:
                recs[0]["fabricated_at_origin"] = fabricated
            # "absent network loss": on a loaded machine loopback datagrams are dropped at full socket buffers. A run whose only
            # flaw is missing datagrams is repeated; a defect that loses datagrams loses them again, the machine's load does not
            if attempt < 2 and alive and not panic and loss_only(recs, fabricated):
                reruns.append({"path": [up, mode], "attempt": attempt})
                for s_ in sessions:
                    s_.close()
                topo.stop()
                for o in origins:
                    o.close()
                time.sleep(1.0)
                continue
            break
        # receive error: a client vanishes before the echo reply reaches it (ICMP port unreachable on the session socket);
        # nothing may be fabricated from that error, neither towards the origin nor towards other sessions
        if mode == "reverse":
            n0 = len(origins[0].got)
            g = socket.socket(socket.AF_INET, socket.SOCK_DGRAM)
            g.bind(("127.0.0.1", 0))
            for k in range(3):
                g.sendto(tagged(900, k, 40), ("127.0.0.1", topo.rev[up]))
                time.sleep(0.01)
            g.close()
            time.sleep(1.2)
            extra = [p for p, a in origins[0].got[n0:] if parse_tag(p) is None]
            if extra:
                recs[0]["fabricated_at_origin"] += len(extra)
                recs[0]["fabricated_samples"] = [e[:20].hex() for e in extra[:3]]
        for s in sessions:
            s.close()
        topo.stop()
        for o in origins:
            o.close()
        if not alive or panic:
            v.report("udp/proxy-died/%s/%s" % (up, mode), str(panic)[:300], {"path": [up, mode]})
        all_recs += recs
    up_path = os.path.join(wd, "udp.ndjson")
    vlib.write_ndjson(up_path, all_recs)
    g = vlib.tlc_must_pass(vlib.run_tlc("UdpObs", "UdpObs.cfg", workers=1, timeout=300, env_extra={"UDP": up_path}), "UdpObs")
    if g.distinct < len(all_recs):
        raise vlib.ToolError("UdpObs did not visit every record")
    for c in g.cases:
        r = c["rec"]
        what = []
        if any(x == 0 for x in r["at_origin"]):
            what.append("lost" + ("-first" if r["at_origin"][0] == 0 and all(x == 1 for x in r["at_origin"][1:]) else ""))
        if any(x > 1 for x in r["at_origin"]):
            what.append("duplicated")
        if r["misdelivered"] or r["foreign_replies"]:
            what.append("cross-session")
        if r["corrupted"]:
            what.append("corrupted")
        if any(x != 1 for x in r["replies"]):
            what.append("reply-count")
        if r["mislabelled"]:
            what.append("reply-label")
        if r["fabricated_at_origin"]:
            what.append("fabricated-datagram")
        v.report("udp/%s/%s/%s" % (r["up"], r["mode"], "+".join(what) or "record"), r, {"session": r})
    ev = vlib.evidence(PID, tier, "model_checking", {
        "states": mc.distinct, "transitions": mc.generated, "traces_validated_against_impl": len(all_recs),
        "samples": all_recs[:2], "evaluations": sum(r["sent"] for r in all_recs), "distinct_nontrivial": len(all_recs),
        "paths_repeated_because_only_datagrams_were_missing": reruns,
        "rule": "MCUdp: 2 clients x 2 datagrams x 2 origins with one receive error: DeliveredRight, AtMostOnce, RepliesRight, Isolation, AllDelivered; "
                "real processes: reverse-UDP listener and SOCKS5 UDP ASSOCIATE, each through direct / http (inline frames) / socks5 / quic datagrams "
                "(fragmenting) / quic inline upstreams, several concurrent sessions with interleaved tagged datagrams of sizes up to %d bytes to IPv4, "
                "IPv6 and domain destinations with echoing origins, plus a vanishing client (receive error); per-session observations judged by UdpObs" % max(sizes),
        "paths": ["%s/%s" % p for p in paths], "sessions": len(all_recs), "exhaustive": False, "checker_cmd": mc.cmd,
    }, ["loopback loses nothing as long as channels do not overflow: sends are paced (4 ms)", "TPROXY listeners are not exercised",
        "a SOCKS5 UDP association is bound to the address family of its client (IPv4 here): IPv6 destinations are not part of this run"])
    return v.finish(ev, t0)


def replay(path):
    print(json.dumps(json.load(open(path))["replay"])[:3000])
    return 0

"""C08 - rule-language type soundness. TLA+: spec/MiluTypes.tla (reference typing + evaluation, RefSound)."""
import json, os, time
import vlib

PID = "C08"


def render(tokens):
    return " ".join(tokens).replace(" }s`", "}s`")


def norm_ty(t):
    return json.dumps(t, sort_keys=True)


def has_type(v, t):
    """runtime value v (forced) inhabits checker type t"""
    k = t["k"]
    if k in ("any", "native"):
        return True
    vt = v.get("t")
    if vt == "err":
        return True   # a lazily evaluated member failed: judged as evaluation error by the caller
    if k == "int":
        return vt == "int"
    if k == "str":
        return vt == "str"
    if k == "bool":
        return vt == "bool"
    if k == "arr":
        return vt == "arr" and all(has_type(m, t["e"][0]) for m in v["v"])
    if k == "tup":
        return vt == "tup" and len(v["v"]) == len(t["e"]) and all(has_type(m, e) for m, e in zip(v["v"], t["e"]))
    return False


def member_err(v):
    if v.get("t") == "err":
        return True
    if v.get("t") in ("arr", "tup"):
        return any(member_err(m) for m in v["v"])
    return False


def ref_may_err(ref):
    if ref["t"] in ("err", "unk"):
        return True
    if ref["t"] in ("arr", "tup"):
        return any(ref_may_err(m) for m in ref["v"])
    return False


def same_val(obs, ref):
    """ref: reference value (t in int,big,str,bool,arr,tup); obs: observed forced value"""
    rt = ref["t"]
    if rt == "unk":
        return True
    if rt == "big":
        return obs.get("t") == "int" and (obs["v"] > 10 ** 6 if ref["v"] > 0 else obs["v"] < -10 ** 6)
    if rt in ("arr", "tup"):
        return obs.get("t") == rt and len(obs["v"]) == len(ref["v"]) and all(same_val(o, r) for o, r in zip(obs["v"], ref["v"]))
    return obs.get("t") == rt and obs.get("v") == ref["v"]


def judge(c, o):
    """returns list of (key, detail). c: TLC case, o: observation"""
    rt = c["ty"]
    good = rt["k"] not in ("reject", "open")
    root = c["root"]
    out = []
    if o["parse"] != "ok":
        if isinstance(o["parse"], dict):
            out.append(("types/panic/parse/" + root, o["parse"]))
        return out     # rejected when loaded (C09 decides what the parser must accept)
    ty = o["ty"]
    if "panic" in ty:
        out.append(("types/panic/check/" + root, ty["panic"]))
        return out
    if "err" in ty:
        return out     # rejected when loaded: always allowed by the property (soundness, not completeness)
    t = ty["ok"]
    for i, (vo, vr) in enumerate(zip(o["vals"], c["vals"])):
        if "panic" in vo:
            out.append(("types/panic/eval/" + root, {"env": i, "panic": vo["panic"]}))
            continue
        if "err" in vo or ("ok" in vo and member_err(vo["ok"])):
            msg = vo.get("err", "error in lazily evaluated member")
            if rt["k"] == "reject":
                # definitely ill-typed by the documented rules, accepted when loaded, failed when a request arrived
                out.append(("types/accepted-then-failed/" + root, {"env": i, "checker": t, "reference_type": rt["k"], "error": msg}))
            elif rt["k"] == "open":
                pass    # typing not fixed by the documentation: the failure may be one of the inherently dynamic errors
            elif not ref_may_err(vr):
                out.append(("types/unexpected-error/" + root, {"env": i, "expected": vr, "error": msg}))
            continue
        v = vo["ok"]
        if not has_type(v, t):
            out.append(("types/unsound-value/" + root, {"env": i, "checker": t, "value": v}))
            continue
        if good:
            if vr["t"] == "err":
                out.append(("types/missing-error/" + root, {"env": i, "expected": vr, "value": v}))
            elif not same_val(v, vr):
                out.append(("types/wrong-value/" + root, {"env": i, "expected": vr, "value": v}))
    return out


DOCUMENTED_RUNTIME = ("out of bounds", "out of range", "overflow", "division by zero")


def logformat_phase(v, wd, cases, thorough):
    """The checker at one of its call sites: a script the proxy accepts as access-log format (required type: string) gives, for a
    real request, a record or one of the documented runtime errors - never a type error. Expressions: generated ones whose
    reference type is a string or a non-string, plus whole request objects reached in different ways."""
    import bb, json as _json, socket
    hand = ["`l=${request.listener}`", "request.listener", "request.target", "request.source", "let h = request.target.host in h",
            "let t = request.target in t", "request.target.host", "request.target.port", "to_string(request.target.port)",
            "[request.target][0]", "(request.target, 1).0", "if request.target.port > 0 then request.target else request.source",
            'split(request.listener, "-")[1]', "`q=${to_string(100 / (request.target.port - 9))}`"]
    gen_s = [c["text"] for c in cases if c["ty"]["k"] == "str" and len(c["text"]) < 60]
    gen_o = [c["text"] for c in cases if c["ty"]["k"] not in ("str", "reject", "open") and len(c["text"]) < 60]
    step = lambda xs, n: xs[::max(1, len(xs) // n)][:n]
    texts = hand + step(gen_s, 10 if thorough else 4) + step(gen_o, 10 if thorough else 4)
    out = {"tried": 0, "accepted": 0, "records": 0, "documented_runtime_errors": 0, "refused_at_load": 0}
    for i, text in enumerate(texts):
        api, lp = bb.free_port(), bb.free_port()
        logp = os.path.join(wd, "lf%d.access" % i)
        if os.path.exists(logp):
            os.remove(logp)
        doc = {"apiVersion": "v1alpha", "kind": "ProxyDefinition", "metrics": {"bind": "127.0.0.1:%d" % api, "ui": None},
               "accessLog": {"path": logp, "format": {"script": text}},
               "listeners": [{"name": "in-http", "type": "http", "bind": "127.0.0.1:%d" % lp}],
               "connectors": [{"name": "direct", "type": "direct"}], "rules": [{"target": "direct"}]}
        p = bb.Proxy("lf%d" % i, wd, _json.dumps(doc))
        out["tried"] += 1
        try:
            p.start(wait_ports=[api], timeout=8)
        except vlib.ToolError as e:
            if p.panicked() or "panicked at" in str(e):
                v.report("types/logformat/crash-at-load", {"text": text, "why": str(p.panicked() or e)[-300:]}, {"config": doc})
            out["refused_at_load"] += 1
            p.kill9()
            if i == 0:
                raise vlib.ToolError("log format control was refused: %s" % e)
            continue
        out["accepted"] += 1
        outcome = None
        try:
            for attempt in range(2):
                try:
                    s = socket.create_connection(("127.0.0.1", lp), timeout=3)
                    s.settimeout(5)
                    s.sendall(b"CONNECT 127.0.0.1:9 HTTP/1.1\r\n\r\n")
                    try:
                        s.recv(4096)
                    except OSError:
                        pass
                    s.close()
                except OSError:
                    pass
                end = time.time() + 6
                while time.time() < end and outcome is None:
                    try:
                        p.api(api, "/logrotate", method="POST", body="")      # records sit in the writer's buffer until a rotation
                    except OSError:
                        pass
                    if os.path.exists(logp) and os.path.getsize(logp) > 0:
                        outcome = ("record", "")
                        break
                    p.logf.flush()
                    txt = open(p.log_path, "rb").read().decode("utf-8", "replace")
                    k = txt.find("record skipped")
                    if k >= 0:
                        outcome = ("skipped", txt[k:k + 300])
                        break
                    if not p.alive():
                        outcome = ("died", str(p.panicked())[:300])
                        break
                    time.sleep(0.4)
                if outcome:
                    break
        finally:
            p.kill9()
            p.logf.close()
        if outcome is None:
            if i == 0:
                raise vlib.ToolError("log format control produced no record")
            continue
        if outcome[0] == "record":
            out["records"] += 1
        elif outcome[0] == "died":
            v.report("types/logformat/process-died", {"text": text, "why": outcome[1]}, {"config": doc})
        elif any(w in outcome[1] for w in DOCUMENTED_RUNTIME):
            out["documented_runtime_errors"] += 1
        else:
            v.report("types/logformat/accepted-then-type-error", {"text": text, "log": outcome[1]}, {"config": doc})
    if out["records"] < 3:
        raise vlib.ToolError("vacuous: log format phase wrote %d records" % out["records"])
    return out


def run(tier, t0):
    v = vlib.Verdicts(PID)
    wd = vlib.workdir("c08")
    thorough = tier == "thorough"
    seed = vlib.seed()
    vlib.build_harness()
    runs = [("d2", "Types_full.cfg" if thorough else "Types_quick.cfg", None)]
    if thorough:
        runs.append(("deep", "Types_deep.cfg", 6))   # per worker; every successor along each random walk is emitted
    cases = []
    states = trans = 0
    seen = set()
    cmd = ""
    for name, cfg, sim in runs:
        r = vlib.run_tlc("MiluTypes", cfg, workers=8, timeout=3400, xmx="16g", simulate=sim, depth=6 if sim else None,
                         seed_val=seed if sim else None, name="types_" + name)
        vlib.tlc_must_pass(r, name)
        states += r.distinct
        trans += r.generated
        cmd = cmd or r.cmd
        for c in r.cases:
            txt = render(c["txt"])
            if txt in seen:
                continue
            seen.add(txt)
            c["text"] = txt
            c["id"] = len(cases)
            cases.append(c)
    if not cases:
        raise vlib.ToolError("no expressions generated")
    path = os.path.join(wd, "cases.ndjson")
    vlib.write_ndjson(path, [{"id": c["id"], "txt": c["text"]} for c in cases])
    res = os.path.join(wd, "res.ndjson")
    rc, _, err = vlib.vh(["types", path], stdout_path=res)
    crashed = 0
    if rc != 0:
        # the driver process itself died (stack exhaustion / abort cannot be caught in-process): what a request would do to
        # the proxy. Find the expressions without an answer and run each one in a process of its own.
        def run_some(sub, tag):
            pth = os.path.join(wd, "sub_%s.ndjson" % tag)
            out = os.path.join(wd, "sub_%s_res.ndjson" % tag)
            vlib.write_ndjson(pth, [{"id": c["id"], "txt": c["text"]} for c in sub])
            rc1, _, err1 = vlib.vh(["types", pth], stdout_path=out, timeout=600)
            return rc1, out, err1

        def crashers(sub, depth=0):
            """expressions of `sub` that take the driver process down, found by halving; answers of the others are kept"""
            rc1, out, err1 = run_some(sub, "d%d" % depth)
            if rc1 == 0:
                good.extend(l for l in open(out, "rb") if b'"id"' in l)
                return []
            if len(sub) == 1:
                return [(sub[0], rc1, err1)]
            if len(found) >= 3:
                return []
            h = len(sub) // 2
            a = crashers(sub[:h], depth + 1)
            found.extend(a)
            b = crashers(sub[h:], depth + 1)
            return a + b
        good, found, bad = [], [], []
        for k in range(0, len(cases), 4000):
            bad += crashers(cases[k:k + 4000])
        if not bad:
            raise vlib.ToolError("vh types failed (rc=%s) but no single expression reproduces it: %s" % (rc, err[-300:]))
        dead = set()
        for c, rc1, err1 in bad:
            crashed += 1
            dead.add(c["id"])
            v.report("types/process-died/%s" % c.get("root", "?"), {"text": c["text"], "rc": rc1, "stderr": err1[-200:], "reference_type": c["ty"]["k"]},
                     {"driver": "vh types", "case": {"id": 0, "txt": c["text"]}})
        answered = {json.loads(l)["id"] for l in good}
        with open(res, "wb") as f:
            f.writelines(good)
            for c in cases:
                if c["id"] not in answered:
                    f.write(json.dumps({"id": c["id"], "died": True}).encode() + b"\n")
    n = 0
    accepted = welltyped = evald = 0
    with open(res, "rb") as f:
        for line in f:
            o = json.loads(line.decode("utf-8", "replace"))
            c = cases[o["id"]]
            n += 1
            if o.get("died"):
                continue
            if c["ty"]["k"] not in ("reject", "open"):
                welltyped += 1
            if o.get("ty", {}).get("ok") is not None:
                accepted += 1
                evald += len(o["vals"])
            for key, detail in judge(c, o):
                v.report(key, {"text": c["text"], "detail": detail}, {"driver": "vh types", "case": {"id": 0, "txt": c["text"]},
                                                                    "reference": {"ty": c["ty"], "vals": c["vals"]}})
    if n != len(cases):
        raise vlib.ToolError("types driver answered %d of %d cases" % (n, len(cases)))
    if welltyped < 100 or accepted < 100:
        raise vlib.ToolError("vacuous: too few well-typed / accepted expressions")
    lf = logformat_phase(v, wd, cases, thorough)
    smp = [c for c in cases if c["ty"]["k"] not in ("reject", "open")]
    ev = vlib.evidence(PID, tier, "model_checking", {
        "states": states, "transitions": trans, "traces_validated_against_impl": n,
        "samples": [{"text": c["text"], "reference_type": c["ty"], "reference_values": c["vals"]} for c in
                    (smp[7], smp[len(smp) // 2], cases[len(cases) // 3])],
        "evaluations": n + evald, "distinct_nontrivial": welltyped,
        "rule": "TLC grows expressions (every operator/function/construct over every atom at depth 1; representative operands "
                "from depth 2) and checks RefSound on each; each text is parsed, type-checked and evaluated under 3 request "
                "environments by the real milu crate; non-trivial = well-typed by the reference",
        "expressions": n, "accepted_by_checker": accepted, "welltyped_by_reference": welltyped, "evaluations_run": evald,
        "exhaustive": True, "checker_cmd": cmd, "log_formats_through_the_proxy": lf,
    }, ["reference typing covers the documented core; constructs the documentation leaves open are typed Open (agreement only)",
        "integer magnitudes beyond 10^6 are abstract (big+/big-): only type and crash-freedom are checked for them",
        "harness profile has overflow checks on (the repository's dev/test profile)"])
    return v.finish(ev, t0)


def replay(path):
    r = json.load(open(path))
    wd = vlib.workdir("c08_replay")
    p = os.path.join(wd, "case.ndjson")
    vlib.write_ndjson(p, [r["replay"]["case"]])
    rc, out, err = vlib.vh(["types", p])
    print(out)
    print("reference:", json.dumps(r["replay"].get("reference")))
    return 0

"""C18 - bad configuration is an error, never a crash; accepted configuration runs. TLA+: Config.tla (mutation table,
load-balancer graphs with Safe(g))."""
import copy, json, os, random, subprocess, threading, time
import vlib, bb

PID = "C18"
FX = bb.FIX


def base_config(wd, ports):
    return {
        "apiVersion": "v1alpha", "kind": "ProxyDefinition",
        "ioParams": {"bufferSize": 65536, "useSplice": True},
        "metrics": {"bind": "127.0.0.1:%d" % ports[0], "historySize": 10, "ui": None, "apiPrefix": "/api", "cors": "*"},
        "accessLog": {"path": os.path.join(wd, "access.log"), "format": "json"},
        "timeouts": {"idle": 10, "udp": 10},
        "listeners": [
            {"name": "http", "type": "http", "bind": "127.0.0.1:%d" % ports[1]},
            {"name": "https", "type": "http", "bind": "127.0.0.1:%d" % ports[2],
             "tls": {"cert": FX + "/server.crt", "key": FX + "/server.key", "client": {"ca": FX + "/ca.crt", "required": True}}},
            {"name": "socks", "type": "socks", "bind": "127.0.0.1:%d" % ports[3], "allowUdp": True, "overrideUdpAddress": "127.0.0.1",
             "auth": {"required": True, "users": [{"username": "a", "password": "a"}], "cmd": ["true"], "cache": {"timeout": 10}}},
            {"name": "rev", "type": "reverse", "bind": "127.0.0.1:%d" % ports[4], "target": "127.0.0.1:9", "protocol": "tcp"},
            {"name": "quic", "type": "quic", "bind": "127.0.0.1:%d" % ports[5], "bbr": True, "tls": {"cert": FX + "/server.crt", "key": FX + "/server.key"}},
            {"name": "tp", "type": "tproxy", "bind": "127.0.0.1:%d" % ports[6], "protocol": "udp", "maxUdpSocket": 128, "udpFullCone": False},
        ],
        "connectors": [
            {"name": "direct", "type": "direct", "bind": "127.0.0.1", "dns": {"servers": "system", "family": "V4Only"}, "fwmark": None, "keepalive": True},
            {"name": "uphttp", "type": "http", "server": "127.0.0.1", "port": 9,
             "tls": {"insecure": False, "ca": FX + "/ca.crt", "auth": {"cert": FX + "/client.crt", "key": FX + "/client.key"}}},
            {"name": "upsocks", "type": "socks", "server": "127.0.0.1", "port": 9, "version": 5, "auth": {"username": "u", "password": "p"}},
            {"name": "lb", "type": "loadbalance", "connectors": ["direct", "uphttp"], "algo": "rr"},
            {"name": "upquic", "type": "quic", "server": "localhost", "port": 9, "bind": "127.0.0.1:0", "inlineUdp": False, "tls": {"ca": FX + "/ca.crt"}},
        ],
        "rules": [{"filter": 'request.listener == "http"', "target": "lb"}, {"target": "direct"}],
    }


RETYPE = {"string": "x", "int": 7, "negint": -1, "bool": True, "list": [1, "a"], "map": {"a": 1}, "null": None, "float": 1.5}
VALUE = {"empty": "", "unknown_type": "nosuchtype", "deny": "deny", "huge": 99999999999999999999, "bad_addr": "999.1.1.1:99999", "bad_port": 70000,
         "bad_path": "/nonexistent/dir/x.pem", "bad_script": "request.listener == ", "nonbool_script": "request.listener", "unknown_ref": "nosuch",
         "self_ref": "lb", "nul": "a\u0000b"}


LOGSCRIPT = {"valid": "`src=${request.source} dst=${request.target} l=${request.listener}`",
             "evalfail_always": 'split(request.listener, "-")[1]',
             "const_div0": "`x=${to_string(1000 / 0)}`",
             "traffic_dependent_div": "`q=${to_string(100 / (request.target.port - 80))}`",
             "traffic_dependent_index": 'split("a.b", ".")[request.target.port / 200]',
             "nonstring": "request.target.port",
             "syntax": "`${request.listener"}


def mutate(doc, path, op, param):
    d = copy.deepcopy(doc)
    if op == "startup":
        keys = path.split(".")
        cur = d
        for k in keys[:-1]:
            cur = cur[int(k) if k.isdigit() else k]
        old = cur[keys[-1]]
        if param == "wrong_pem":
            new = (FX + "/server.crt") if keys[-1] == "key" else (FX + "/server.key")
        else:
            new = {"no_slash": "api", "wildcard": "/api/*rest", "bad_header": "a\nb", "unbindable": "203.0.113.1:%s" % str(old).rsplit(":", 1)[-1],
                   "u64max": 18446744073709551615, "zero": 0}[param]
        cur[keys[-1]] = new
        return d
    if op == "logscript":
        d["accessLog"]["format"] = {"script": LOGSCRIPT[param]}
        return d
    keys = path.split(".")
    cur = d
    for k in keys[:-1]:
        k = int(k) if k.isdigit() else k
        try:
            cur = cur[k]
        except (KeyError, IndexError, TypeError):
            return None
    last = int(keys[-1]) if keys[-1].isdigit() else keys[-1]
    try:
        cur[last]
    except (KeyError, IndexError, TypeError):
        return None
    if op == "delete":
        del cur[last]
    elif op == "retype":
        cur[last] = RETYPE[param]
    elif param == "dup_name":
        # give this element the name of its sibling (or duplicate the element)
        if isinstance(cur, list):
            cur.append(copy.deepcopy(cur[last]))
        elif last == "name":
            cur[last] = "direct" if "connectors" in path else "http"
        else:
            return None
    else:
        cur[last] = VALUE[param]
    return d


def run_process_test(bindir, cfg_path, timeout=20):
    try:
        # the option takes a (dummy) value in this clap setup
        p = subprocess.run([os.path.join(bindir, "rp"), "-c", cfg_path, "--test", "1"], stdout=subprocess.PIPE, stderr=subprocess.STDOUT, timeout=timeout,
                           env=dict(os.environ, RUST_LOG="error"), cwd=os.path.dirname(os.path.abspath(cfg_path)))   # a relative accessLog.path lands there
    except subprocess.TimeoutExpired:
        return "hang", ""
    if p.returncode == 0:
        return "accepted", ""
    if p.returncode < 0 or p.returncode in (134, 139):
        return "crash", p.stdout.decode("utf-8", "replace")[-300:]
    return "rejected", p.stdout.decode("utf-8", "replace")[-200:]


_ECHO = []


def echo_port():
    """one echo server for the whole check: a tunnel that is really established and carries bytes"""
    import socket, threading
    if _ECHO:
        return _ECHO[0]
    srv = socket.socket()
    srv.setsockopt(socket.SOL_SOCKET, socket.SO_REUSEADDR, 1)
    srv.bind(("127.0.0.1", 0))
    srv.listen(64)

    def serve(c):
        try:
            c.settimeout(5)
            while True:
                d = c.recv(4096)
                if not d:
                    break
                c.sendall(d)
        except OSError:
            pass
        finally:
            c.close()

    def loop():
        while True:
            try:
                c, _ = srv.accept()
            except OSError:
                return
            threading.Thread(target=serve, args=(c,), daemon=True).start()
    threading.Thread(target=loop, daemon=True).start()
    _ECHO.append(srv.getsockname()[1])
    return _ECHO[0]


def probe_running(wd, name, doc, ports, sweep=True):
    """start the proxy with an accepted configuration and send one request to its http and socks listeners"""
    import socket
    p = bb.Proxy(name, wd, json.dumps(doc))
    try:
        p.start(wait_ports=[ports[0]], timeout=8)
    except vlib.ToolError as e:
        # refusing to start with an error message is fine; dying in a panic / on a signal is not
        rc = p.p.poll() if p.p is not None else None
        if rc is None and p.p is not None:
            p.kill9()           # still running but its API never came up: do not leave it behind
        if p.panicked() or (rc is not None and (rc < 0 or rc in (134, 139))) or "panicked at" in str(e):
            return "crashed-at-start", (str(p.panicked()) or str(e))[-300:]
        return "did-not-start", str(e)[-200:]
    res = "ok"
    why = ""
    try:
        for port, data in ((ports[1], b"CONNECT 127.0.0.1:9 HTTP/1.1\r\n\r\n"), (ports[1], b"CONNECT 127.0.0.1:9 HTTP/1.1\r\n\r\n"), (ports[1], b"CONNECT 127.0.0.1:9 HTTP/1.1\r\n\r\n"),
                           (ports[1], b"CONNECT 127.0.0.1:%d HTTP/1.1\r\n\r\n" % echo_port()), (ports[1], b"CONNECT 127.0.0.1:%d HTTP/1.1\r\n\r\n" % echo_port()), (ports[1], b"CONNECT localhost:80 HTTP/1.1\r\n\r\n"), (ports[1], b"CONNECT localhost:443 HTTP/1.1\r\n\r\n"), (ports[3], b"\x05\x01\x02\x01\x01a\x01a\x05\x01\x00\x01\x7f\x00\x00\x01\x00\x09"),
                           (ports[3], b"\x05\x01\x02\x01\x01b\x01b\x05\x01\x00\x01\x7f\x00\x00\x01\x00\x09")):
            try:
                s = socket.create_connection(("127.0.0.1", port), timeout=3)
            except OSError:
                continue        # the mutation may have removed or moved this listener
            s.settimeout(6.0)
            s.sendall(data)
            try:
                got = s.recv(4096)
                if got.startswith(b"HTTP/1.1 200") and b":%d " % echo_port() in data:
                    # an established tunnel: bytes both ways (the copy loops run with the configured io parameters)
                    s.settimeout(3.0)
                    s.sendall(b"ping" * 64)
                    try:
                        s.recv(4096)
                    except OSError:
                        pass
            except socket.timeout:
                res, why = "request-never-answered", "listener on port %d gave no reply within 6 s" % port
            except OSError:
                pass
            s.close()
        # finished connections are handed to the access log by the once-a-second sweep
        time.sleep(2.2 if sweep else 0.3)
        if not p.alive():
            res, why = "died", str(p.panicked())[:200]
        else:
            try:
                p.api(ports[0], "/status", timeout=5)
            except OSError as e:
                res, why = "api-dead", repr(e)
    finally:
        p.kill9()
        p.logf.close()
    return res, why


def run(tier, t0):
    v = vlib.Verdicts(PID)
    wd = vlib.workdir("c18")
    thorough = tier == "thorough"
    seed = vlib.seed()
    rnd = random.Random(seed)
    bindir = vlib.build_harness()
    g = vlib.tlc_must_pass(vlib.run_tlc("Config", "Config.cfg", workers=4, timeout=900), "Config")
    rows = [c for c in g.cases if c["kind"] == "row"]
    graphs = [c for c in g.cases if c["kind"] == "graph"]
    if len(rows) < 500 or len(graphs) < 1000:
        raise vlib.ToolError("config tables too small")
    ports = [bb.free_port() for _ in range(7)]
    base = base_config(wd, ports)
    cases = [{"id": 0, "yaml": json.dumps(base)}]
    meta = [("base", None, base)]
    for r in rows:
        d = mutate(base, r["path"], r["op"], r["param"])
        if d is None:
            continue
        cases.append({"id": len(cases), "yaml": json.dumps(d)})
        meta.append(("row", r, d))
    for gr in graphs:
        d = copy.deepcopy(base)
        d["connectors"] = [c for c in d["connectors"] if c["name"] == "direct"] + [
            {"name": n, "type": "loadbalance", "connectors": ["direct" if m == "leaf" else m for m in sorted(gr["members"][n])]} for n in ("lb1", "lb2", "lb3")]
        d["rules"] = [{"target": "lb1"}]
        cases.append({"id": len(cases), "yaml": json.dumps(d)})
        meta.append(("graph", gr, d))
    # rule lists posted as JSON: the same operators applied to a rule list
    rule_base = [{"filter": 'request.listener == "http"', "target": "direct"}, {"target": "deny"}]
    posts = [rule_base, [], [{}], [{"target": 5}], [{"filter": 5, "target": "direct"}], [{"filter": None, "target": "direct"}], [{"target": None}],
             [{"filter": "request.listener ==", "target": "direct"}], [{"filter": "request.listener", "target": "direct"}], [{"target": "nosuch"}],
             {"target": "direct"}, "x", [[{"target": "direct"}]], [{"filter": "to_string()", "target": "direct"}], [{"filter": "(1,2).5 == 1", "target": "direct"}],
             [{"filter": "1/0 == 1", "target": "direct"}], [{"target": "direct", "stats": {"exec": "x"}}], [{"target": "direct", "extra": 1}],
             [{"filter": "a" * 100000, "target": "direct"}], [{"filter": "((((((1)))))) == 1", "target": "direct"}]]
    # inputs that may take the whole process down (stack exhaustion): each runs in a process of its own
    risky = [("deep-nesting-400", [{"filter": "(" * 400 + "1" + ")" * 400 + " == 1", "target": "direct"}]),
             ("deep-nesting-not-400", [{"filter": "!" * 400 + "true", "target": "direct"}]),
             ("deep-array-400", [{"filter": "1 _: " + "[" * 400 + "1" + "]" * 400, "target": "direct"}])]
    for pz in posts:
        cases.append({"id": len(cases), "post": json.dumps(pz)})
        meta.append(("post", pz, None))
    path = os.path.join(wd, "cases.ndjson")
    vlib.write_ndjson(path, cases)
    res = os.path.join(wd, "res.ndjson")
    rc, _, err = vlib.vh(["config", path], stdout_path=res, timeout=3000, cwd=wd)
    if rc != 0:
        raise vlib.ToolError("vh config failed rc=%d: %s" % (rc, err))
    out = {}
    for r in vlib.read_ndjson(res):
        if not r.get("summary"):
            out[r["id"]] = r
    if len(out) != len(cases):
        raise vlib.ToolError("config driver answered %d of %d" % (len(out), len(cases)))
    if out[0]["load"] != "accepted":
        raise vlib.ToolError("the reference configuration is not accepted: %s" % out[0])
    counts = {}
    accepted_rows = []
    for c, (kind, r, d) in zip(cases, meta):
        o = out[c["id"]]
        counts[(kind, o["load"])] = counts.get((kind, o["load"]), 0) + 1
        rep = {"driver": "vh config", "case": c}
        if o["load"] in ("panic", "hang"):
            key = {"row": lambda: "config/%s/%s/%s/%s" % (o["load"], r["path"], r["op"], r["param"]),
                   "graph": lambda: "config/%s/lb-graph" % o["load"], "post": lambda: "config/%s/post/%s" % (o["load"], json.dumps(r)[:60]),
                   "base": lambda: "config/base"}[kind]()
            v.report(key, {"msg": o.get("msg")}, rep)
        elif kind == "graph" and o["load"] == "accepted" and not r["safe"]:
            v.report("config/lb-cycle-accepted", {"members": r["members"], "note": "a request routed to lb1 can never finish"}, rep)
        elif kind == "row" and o["load"] == "accepted":
            accepted_rows.append((r, d))
    for name, body in risky:
        rp_ = os.path.join(wd, "risky.ndjson")
        vlib.write_ndjson(rp_, [{"id": 0, "post": json.dumps(body)}])
        try:
            rc1, out1, err1 = vlib.vh(["config", rp_], timeout=60, cwd=wd)
        except vlib.ToolError:
            rc1, out1, err1 = 0, "", ""      # took longer than a minute: slow, not a crash
        counts[("risky", "rc%d" % rc1)] = counts.get(("risky", "rc%d" % rc1), 0) + 1
        if rc1 < 0 or rc1 in (134, 139) or '"load":"panic"' in (out1 or ""):
            v.report("config/crash/post/%s" % name, {"rc": rc1, "stderr": err1[-200:]}, {"driver": "vh config", "case": {"id": 0, "post": json.dumps(body)[:200] + "..."}})
    # the real binary: --test on a sample, then start + probe for accepted ones
    sample = rnd.sample([(k, r, d) for (k, r, d) in meta if k == "row"], 300 if thorough else 40)
    nproc = 0
    cp0 = os.path.join(wd, "base.yaml")
    open(cp0, "w").write(json.dumps(base))
    st0, msg0 = run_process_test(bindir, cp0)
    if st0 != "accepted":
        raise vlib.ToolError("positive control: `rp --test` does not accept the reference configuration: %s %s" % (st0, msg0))
    agree = 0
    for kind, r, d in sample:
        cp = os.path.join(wd, "m.yaml")
        open(cp, "w").write(json.dumps(d))
        st, msg = run_process_test(bindir, cp)
        nproc += 1
        if st in ("crash", "hang"):
            v.report("config/process-%s/%s/%s/%s" % (st, r["path"], r["op"], r["param"]), {"output": msg}, {"cmd": "rp --test 1 -c <mutant>", "yaml": json.dumps(d)})
        agree += int(st == out[[c["id"] for c, (k2, r2, d2) in zip(cases, meta) if d2 is d][0]]["load"])
    nrun = 0
    # always started and probed: script formats, start-up stage values, and everything that changes what refers to what
    # (members of the load balancer, rule targets, names): a dangling reference only shows when a request is routed to it
    def refers(r):
        return r["path"].startswith("connectors.3") or r["path"].startswith("rules.") or r["path"].endswith(".name") or \
            r["param"] in ("unknown_ref", "self_ref", "dup_name", "deny")
    logrows = [(r, d) for r, d in accepted_rows if r["op"] in ("logscript", "startup") or refers(r)]
    others = [(r, d) for r, d in accepted_rows if not (r["op"] in ("logscript", "startup") or refers(r))]
    if not any(r["param"] == "valid" for r, _ in logrows):
        raise vlib.ToolError("the valid access-log script is not accepted")
    for r, d in logrows + rnd.sample(others, min(len(others), 60 if thorough else 10)):
        st, why = probe_running(wd, "acc%d" % nrun, d, ports, sweep=(r["op"] == "logscript" or r["path"].startswith("accessLog")))
        nrun += 1
        if st not in ("ok", "did-not-start"):
            v.report("config/accepted-then-%s/%s/%s/%s" % (st, r["path"], r["op"], r["param"]), {"why": why}, {"yaml": json.dumps(d)})
    # unsafe graphs that were accepted: show the consequence on the real process (bounded)
    bad = [(r, d) for (k, r, d), c in zip(meta, cases) if k == "graph" and not r["safe"] and out[c["id"]]["load"] == "accepted"][:2]
    for r, d in bad:
        st, why = probe_running(wd, "cyc", d, ports)
    ev = vlib.evidence(PID, tier, "fault_enumeration", {
        "evaluations": len(cases) + nproc + nrun, "distinct_nontrivial": len(cases),
        "rule": "Config.tla enumerates (field path, mutation operator, parameter) over the reference configuration (all listener / connector kinds, "
                "TLS, auth, rules, metrics, access log, timeouts, io parameters) and every load-balancer reference graph over 3 load balancers + "
                "a leaf with Safe(g); each row is applied to the reference document and loaded by the real loading sequence of main() in-process "
                "under catch_unwind (+ 20 s watchdog); a sample goes through `rp --test`; accepted mutants are started and probed; malformed rule "
                "lists go through the POST /rules path",
        "samples": [{"row": rows[5], "outcome": out[6]["load"]}, {"graph": graphs[100], "outcome": out[len(rows) + 50]["load"]}],
        "rows": len([1 for k, _, _ in meta if k == "row"]), "graphs": len(graphs), "posts": len(posts), "process_test_runs": nproc, "process_test_agrees_with_in_process_loader": agree,
        "accepted_started_and_probed": nrun, "outcomes": {"%s/%s" % k: n for k, n in counts.items()}, "states": g.distinct,
    }, ["the in-process loader mirrors main() (same calls, same order); `rp --test` on a sample ties it to the real binary",
        "mutation-based: one mutation per document"])
    return v.finish(ev, t0)


def replay(path):
    r = json.load(open(path))
    rp = r["replay"]
    if "case" in rp:
        wd = vlib.workdir("c18_replay")
        p = os.path.join(wd, "case.ndjson")
        vlib.write_ndjson(p, [rp["case"]])
        rc, out, err = vlib.vh(["config", p], cwd=wd)
        print(out)
    else:
        print(json.dumps(rp)[:2000])
    return 0

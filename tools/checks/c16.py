"""C16 - every connection accounted for exactly once, truthfully. TLA+: Life.tla, TraceLife."""
from checks.life_run import run_c16


def run(tier, t0):
    return run_c16("C16", tier, t0)


def replay(path):
    import json
    print(json.dumps(json.load(open(path))["replay"])[:3000])
    return 0

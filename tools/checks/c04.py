"""C04 - end-of-stream and abort relayed faithfully, same in both io modes. TLA+: Relay.tla (EofAfterData, FinishedMeansBoth, ClosedOnlyAtEnd, OtherDirectionAlive, liveness), GenRelay, TraceRelay."""
from checks.relay_run import run_relay


def run(tier, t0):
    return run_relay("C04", tier, t0)


def replay(path):
    import json
    print(json.dumps(json.load(open(path))["replay"])[:3000])
    return 0

"""C03 - destination integrity through every re-encoding. TLA+: spec/Dest.tla (case table + Representable)."""
import json, os, socket, struct, ipaddress
import vlib

PID = "C03"
SPECIAL = {"plain": b"a", "colon": b":", "dot": b".", "space": b" ", "tab": b"\t", "cr": b"\r", "lf": b"\n", "nul": b"\x00",
           "ctl": b"\x01", "del": b"\x7f", "nonutf8": b"\xff", "utf8": "é".encode(), "slash": b"/", "at": b"@", "bracket": b"["}


def host_bytes(d):
    n = d["len"]
    h = bytearray(b"a" * n)
    sp = SPECIAL[d["byte"]]
    if n >= len(sp) and d["byte"] != "plain":
        pos = {"first": 0, "mid": (n - len(sp)) // 2, "last": n - len(sp)}[d["pos"]]
        h[pos:pos + len(sp)] = sp
    return bytes(h)


def inbound(codec, d):
    port = d["port"]
    if d["kind"] == "domain":
        h = host_bytes(d)
    if codec == "socks5":
        if d["kind"] == "domain":
            a = b"\x03" + bytes([len(h)]) + h
        elif d["kind"] == "v4":
            a = b"\x01" + socket.inet_aton(d["ip"])
        else:
            a = b"\x04" + ipaddress.IPv6Address(d["ip"]).packed
        return "socks_req", b"\x05\x01\x00" + b"\x05\x01\x00" + a + struct.pack(">H", port)
    if codec == "socks4a":
        return "socks_req", b"\x04\x01" + struct.pack(">H", port) + b"\x00\x00\x00\x01" + b"id\x00" + h + b"\x00"
    if codec == "socks4":
        return "socks_req", b"\x04\x01" + struct.pack(">H", port) + socket.inet_aton(d["ip"]) + b"\x00"
    if codec == "http":
        if d["kind"] == "domain":
            t = h + b":" + str(port).encode()
        elif d["kind"] == "v4":
            t = d["ip"].encode() + b":" + str(port).encode()
        else:
            t = b"[" + d["ip"].encode() + b"]:" + str(port).encode()
        return "http_req", b"CONNECT " + t + b" HTTP/1.1\r\nHost: " + t + b"\r\n\r\n"
    if codec == "socks_udp":
        if d["kind"] == "domain":
            a = b"\x03" + bytes([len(h)]) + h
        elif d["kind"] == "v4":
            a = b"\x01" + socket.inet_aton(d["ip"])
        else:
            a = b"\x04" + ipaddress.IPv6Address(d["ip"]).packed
        return "socks_udp", b"\x00\x00\x00" + a + struct.pack(">H", port) + b"PAYLOAD"
    if codec == "rpfm":
        if d["kind"] == "domain":
            a = b"\x03" + bytes([len(h) + 2]) + h + struct.pack(">H", port)
        elif d["kind"] == "v4":
            a = b"\x01\x06" + socket.inet_aton(d["ip"]) + struct.pack(">H", port)
        else:
            a = b"\x02\x12" + ipaddress.IPv6Address(d["ip"]).packed + struct.pack(">H", port)
        return "rpfm_buf", b"RPFM" + struct.pack(">IHH", 9, len(a), 7) + a + b"PAYLOAD"
    raise ValueError(codec)


def bracketed_v6(wire, ip, port):
    """CONNECT [v6]:port - read the way a third party reads an authority"""
    try:
        parts = wire.split(b"\r\n")[0].split(b" ")
        t = parts[1].decode("ascii")
        if not t.startswith("["):
            return False
        lit, _, rest = t[1:].partition("]")
        return ipaddress.IPv6Address(lit) == ipaddress.IPv6Address(ip) and rest == ":%d" % port
    except (ValueError, IndexError, UnicodeDecodeError):
        return False


def asked(d):
    """(host text bytes, port) the client asked for"""
    if d["kind"] == "domain":
        return host_bytes(d), d["port"]
    return d["ip"].encode(), d["port"]


def key_of(c, what):
    d = c["d"]
    cls = d["kind"] if d["kind"] != "domain" else "len%d/%s" % (d["len"], d["byte"] if d["len"] else "plain")
    return "dest/%s->%s/%s/%s" % (c["inc"], c["outc"], cls, what)


def run(tier, t0):
    v = vlib.Verdicts(PID)
    wd = vlib.workdir("c03")
    vlib.build_harness()
    g = vlib.tlc_must_pass(vlib.run_tlc("Dest", "Dest.cfg", workers=8, timeout=900), "Dest")
    table = g.cases
    if len(table) < 1000:
        raise vlib.ToolError("Dest table too small")
    cases = []
    for i, c in enumerate(table):
        dc, data = inbound(c["inc"], c["d"])
        cases.append({"id": i, "op": "hop", "in": dc, "hex": data.hex(), "out": c["outc"]})
    path = os.path.join(wd, "cases.ndjson")
    vlib.write_ndjson(path, cases)
    res = os.path.join(wd, "res.ndjson")
    rc, _, err = vlib.vh(["codec", path], stdout_path=res)
    if rc != 0:
        raise vlib.ToolError("vh codec failed rc=%d: %s" % (rc, err))
    stages = {}
    n = 0
    forwarded_ok = 0
    for r in vlib.read_ndjson(res):
        if r.get("summary"):
            continue
        n += 1
        c = table[r["id"]]
        st = r.get("stage")
        stages[st] = stages.get(st, 0) + 1
        rep = {"driver": "vh codec", "case": cases[r["id"]], "row": c}
        host, port = asked(c["d"])
        if st in ("panic", "hang"):
            v.report(key_of(c, st), r.get("parsed"), rep)
            continue
        if st in ("refused_in", "refused_out"):
            continue
        # the hop accepted the request: what it holds (and evaluates rules on) must be what was asked
        t1 = r["t1"]
        if bytes.fromhex(t1["host"]) != host or t1["port"] != port:
            v.report(key_of(c, "hop-holds-other-destination"), {"asked": [host.hex(), port], "hop_holds": t1}, rep)
            continue
        if st == "refused_next":
            continue    # nothing reached a destination; a malformed message on the wire is C05's business
        t2 = r["t2"]
        if bytes.fromhex(t2["host"]) != host or t2["port"] != port:
            v.report(key_of(c, "next-hop-sees-other-destination"),
                     {"asked": [host.hex()[:80], port], "next_hop": {"host": t2["host"][:80], "port": t2["port"]}, "must_refuse": c["must_refuse"]}, rep)
        elif c.get("wire_rule") == "bracketed-v6" and not bracketed_v6(bytes.fromhex(r["wire"]), c["d"]["ip"], port):
            v.report(key_of(c, "wire-form/ipv6-without-brackets"), {"asked": [host.decode(), port], "request_line": bytes.fromhex(r["wire"]).split(b"\r\n")[0].decode("latin1")}, rep)
        elif r.get("extra"):
            v.report(key_of(c, "extra-bytes"), {"extra": r["extra"][:80]}, rep)
        elif c["outc"] == "http" and (t2.get("method") != "CONNECT" or [h[0] for h in t2.get("headers", [])] != ["Host"]):
            v.report(key_of(c, "extra-protocol-fields"), {"headers": t2.get("headers"), "method": t2.get("method")}, rep)
        elif c["must_refuse"]:
            v.report(key_of(c, "unrepresentable-forwarded"), {"asked": [host.hex()[:80], port]}, rep)
        else:
            forwarded_ok += 1
    if n != len(cases):
        raise vlib.ToolError("codec driver answered %d of %d" % (n, len(cases)))
    if forwarded_ok < 500:
        raise vlib.ToolError("vacuous: almost nothing was forwarded faithfully (%d)" % forwarded_ok)
    ev = vlib.evidence(PID, tier, "model_checking", {
        "states": g.distinct, "transitions": g.generated, "traces_validated_against_impl": n,
        "samples": [{"row": table[i], "inbound_bytes": cases[i]["hex"][:120]} for i in (11, len(table) // 2, len(table) - 7)],
        "evaluations": n, "distinct_nontrivial": len({json.dumps(c, sort_keys=True) for c in table}),
        "rule": "Dest.tla enumerates (inbound codec, outbound codec, destination class) for all real pairings; each row becomes concrete "
                "client bytes, decoded by the real inbound reader, re-encoded by the real outbound writer (as the connector does) and "
                "decoded again by the real reader of the next hop; (host bytes, port) asked = held = seen by next hop, or refused",
        "stages": stages, "forwarded_faithfully": forwarded_ok, "exhaustive": True, "checker_cmd": g.cmd,
    }, ["class table, one representative host per class (length x special byte x position)",
        "a message the next hop's reader rejects counts as refusal here (C05 decides whether it can crash that reader)"])
    return v.finish(ev, t0)


def replay(path):
    r = json.load(open(path))
    wd = vlib.workdir("c03_replay")
    p = os.path.join(wd, "case.ndjson")
    vlib.write_ndjson(p, [r["replay"]["case"]])
    rc, out, err = vlib.vh(["codec", p])
    print(out)
    return 0

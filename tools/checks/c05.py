"""C05 - no remote input can crash or wedge the proxy. TLA+: Faults.tla (grammar x corruption operators),
Life.tla/TraceLife for the process level (only the offending connection fails)."""
import json, os, random, socket, struct, threading, time
import vlib, bb, scen
from checks import life_run

PID = "C05"

BASE = {
    "http_req": [("method", b"CONNECT"), ("sp1", b" "), ("target", b"example.com:443"), ("sp2", b" "), ("version", b"HTTP/1.1"), ("crlf1", b"\r\n"),
                 ("hname", b"Proxy-Protocol"), ("colon", b": "), ("hvalue", b"tcp"), ("crlf2", b"\r\n"), ("end", b"\r\n")],
    "http_resp": [("version", b"HTTP/1.1"), ("sp1", b" "), ("code", b"200"), ("sp2", b" "), ("reason", b"Connection established"), ("crlf1", b"\r\n"),
                  ("sid_name", b"Session-Id"), ("colon", b": "), ("sid_value", b"42"), ("crlf2", b"\r\n"), ("end", b"\r\n")],
    "socks5_req": [("ver", b"\x05"), ("nmethods", b"\x02"), ("methods", b"\x00\x02"), ("aver", b"\x01"), ("ulen", b"\x05"), ("user", b"alice"),
                   ("plen", b"\x06"), ("pass", b"secret"), ("ver2", b"\x05"), ("cmd", b"\x01"), ("rsv", b"\x00"), ("atyp", b"\x03"),
                   ("alen", b"\x0b"), ("addr", b"example.com"), ("port", b"\x01\xbb")],
    "socks4_req": [("ver", b"\x04"), ("cmd", b"\x01"), ("port", b"\x00\x50"), ("ip", b"\x00\x00\x00\x01"), ("userid", b"user"), ("nul1", b"\x00"),
                   ("domain", b"example.org"), ("nul2", b"\x00")],
    "socks5_method": [("ver", b"\x05"), ("method", b"\x00")],
    "socks5_resp": [("ver", b"\x05"), ("rep", b"\x00"), ("rsv", b"\x00"), ("atyp", b"\x03"), ("alen", b"\x05"), ("addr", b"a.b.c"), ("port", b"\x00\x35")],
    "socks4_resp": [("vn", b"\x00"), ("cd", b"\x5a"), ("port", b"\x00\x50"), ("ip", b"\x01\x02\x03\x04")],
    "socks_udp": [("rsv", b"\x00\x00"), ("frag", b"\x00"), ("atyp", b"\x03"), ("alen", b"\x0b"), ("addr", b"example.com"), ("port", b"\x00\x35"),
                  ("payload", b"datagram-payload")],
    "rpfm": [("magic", b"RPFM"), ("sid", b"\x00\x00\x00\x07"), ("attrlen", b"\x00\x0f"), ("bodylen", b"\x00\x05"), ("tag", b"\x03"), ("tlen", b"\x0d"),
             ("host", b"example.com"), ("port", b"\x00\x35"), ("body", b"hello")],
    "frag": [("id", b"\x00\x07"), ("total", b"\x02"), ("seq", b"\x00"), ("payload", b"RPFM\x00\x00\x00\x07\x00\x00\x00\x05hel")],
}


def mutate(dec, idx, op, param, rnd):
    fields = [list(f) for f in BASE[dec]]
    i = idx - 1
    name, val = fields[i]
    cut = None
    if op == "trunc_before":
        cut = sum(len(f[1]) for f in fields[:i])
    elif op == "trunc_inside":
        cut = sum(len(f[1]) for f in fields[:i]) + max(1, len(val) // 2) if len(val) > 1 else sum(len(f[1]) for f in fields[:i])
    elif op == "drop_field":
        fields[i][1] = b""
    elif op == "len_set":
        w = len(val)
        actual = int.from_bytes(val, "big")
        v = {"0": 0, "1": 1, "127": 127, "128": 128, "255": (1 << (8 * w)) - 1, "more": actual + 3, "less": max(actual - 2, 0)}[param]
        fields[i][1] = (v % (1 << (8 * w))).to_bytes(w, "big")
    elif op == "enum_set":
        fields[i][1] = bytes([int(param)]) * len(val)
    elif op == "num_text":
        fields[i][1] = {"empty": b"", "alpha": b"abc", "negative": b"-1", "huge": b"99999999999999999999999", "u32plus1": b"4294967296",
                        "float": b"1.5", "spaces": b" 7 "}[param]
    elif op == "bin_set":
        fields[i][1] = {"0": b"\x00" * len(val), "max": b"\xff" * len(val), "msb": b"\x80" + b"\x00" * (len(val) - 1)}[param]
    elif op == "inflate":
        fields[i][1] = (val or b"x") * (int(param) // max(len(val), 1) + 1)
    elif op == "bytes_set":
        fields[i][1] = {"empty": b"", "nul": b"\x00" * max(len(val), 1), "crlf": b"a\r\nX: y", "nonutf8": b"\xff\xfe\xfd", "space": b"a b"}[param]
    elif op == "repeat":
        fields[i][1] = val * int(param)
    data = b"".join(f[1] for f in fields)
    if cut is not None:
        data = data[:cut]
    return data


def random_variants(data, rnd, k):
    out = []
    for _ in range(k):
        b = bytearray(data)
        for _ in range(rnd.randint(1, 4)):
            r = rnd.random()
            if not b or r < 0.15:
                b.insert(rnd.randint(0, len(b)), rnd.randrange(256))
            elif r < 0.5:
                b[rnd.randrange(len(b))] = rnd.choice([0, 1, 0x7f, 0x80, 0xff, rnd.randrange(256)])
            elif r < 0.7:
                del b[rnd.randrange(len(b))]
            elif r < 0.85:
                b = b[:rnd.randrange(len(b) + 1)]
            else:
                j = rnd.randrange(len(b))
                b[j:j] = b[j:j + rnd.randint(1, 8)] * rnd.randint(2, 40)
        out.append(bytes(b))
    return out


def decode_ops(dec, data, cid):
    """harness cases for one hostile input"""
    h = data.hex()
    if dec == "http_req":
        return [{"op": "decode", "codec": "http_req", "hex": h}]
    if dec == "http_resp":
        return [{"op": "decode", "codec": "http_resp", "hex": h}, {"op": "h11c", "hex": h, "udp": True}, {"op": "h11c", "hex": h, "udp": False}]
    if dec == "socks5_req":
        return [{"op": "decode", "codec": "socks_req_auth", "hex": h}, {"op": "decode", "codec": "socks_req", "hex": h}]
    if dec == "socks4_req":
        return [{"op": "decode", "codec": "socks_req", "hex": h}, {"op": "decode", "codec": "socks_req_auth", "hex": h}]
    if dec in ("socks5_resp", "socks4_resp"):
        return [{"op": "decode", "codec": "socks_resp", "hex": h}]
    if dec == "socks5_method":
        return []       # exercised against the real connector (hostile upstream phase): the selection drives client-side code
    if dec == "socks_udp":
        return [{"op": "decode", "codec": "socks_udp", "hex": h}]
    if dec == "rpfm":
        return [{"op": "decode", "codec": "rpfm_buf", "hex": h}, {"op": "decode", "codec": "rpfm_stream", "hex": h},
                {"op": "decode", "codec": "rpfm_stream", "hex": h, "segs": [1] * min(len(data), 64)}]
    if dec == "frag":
        second = b"\x00\x07\x02\x01lo"
        return [{"op": "frag_seq", "datagrams": [h, second.hex()]}, {"op": "frag_seq", "datagrams": [second.hex(), h, h]}]
    raise ValueError(dec)


def blackbox(v, wd, inputs, rnd, thorough):
    """hostile bytes against real listeners, then liveness probes; hostile upstream replies against connectors"""
    origin = bb.TcpOrigin()
    topo = scen.Topology(wd, "c05", splice=True, special=True, history=2000).start()
    T = ("ipv4", "127.0.0.1", origin.port)
    sent = 0
    lock = threading.Lock()

    def probe_once(tmo):
        """every listener serves a fresh tunnel and the API answers; returns (ok, why)"""
        for proto in ("http", "socks5", "socks4", "https"):
            est = False
            why = ""
            try:
                while not origin.q.empty():
                    origin.q.get().close()
                c, rep = topo.open(proto, "direct", T, timeout=tmo)
                est = bb.established(rep)
                if est:
                    o = origin.accept(tmo)
                    c.send(b"ping")
                    est = o is not None and o.recv_some(timeout=tmo, want=4) >= 4
                    if o:
                        o.close()
                c.close()
            except OSError as e:
                why = repr(e)
            if not est:
                return False, why or ("%s listener did not serve a fresh connection" % proto)
        try:
            st, body = topo.p1.api(topo.api1, "/status", timeout=tmo)
            if st != 200:
                return False, "api status %s" % st
        except OSError as e:
            return False, "api: %r" % e
        return True, ""

    def probe(tag):
        # a wedged proxy stays wedged: a probe that fails is repeated with more patience before it counts
        # (the machine may be busy; a slow answer is not a wedge)
        ok, why = False, ""
        for tmo in (5.0, 10.0, 20.0):
            ok, why = probe_once(tmo)
            if ok or not topo.p1.alive():
                break
            time.sleep(1.0)
        if not ok or not topo.p1.alive():
            v.report("faults/process/%s" % tag, {"why": why, "alive": topo.p1.alive(), "panic": str(topo.p1.panicked())[:300]}, {"after": tag})
        return ok

    targets = {"http_req": [("http", "direct")], "socks5_req": [("socks5", "direct"), ("socks5", "auth")], "socks4_req": [("socks4", "direct"), ("socks4", "auth")]}
    jobs = []
    for dec, data in inputs:
        for key in targets.get(dec, []):
            jobs.append((topo.ports[key], data))
    # garbage of every decoder also goes to every listener kind (a peer may speak the wrong protocol)
    for dec, data in inputs[::7]:
        for key in (("http", "direct"), ("socks5", "direct"), ("https", "direct"), ("sockstls", "direct")):
            jobs.append((topo.ports[key], data))
    rnd.shuffle(jobs)
    if not thorough:
        jobs = jobs[:1500]

    def sender(my):
        nonlocal sent
        for port, data in my:
            try:
                s = socket.create_connection(("127.0.0.1", port), timeout=3)
                s.settimeout(0.3)
                try:
                    s.sendall(data)
                    # half of them linger (stall), half disconnect at once
                    if len(data) % 2:
                        try:
                            s.recv(4096)
                        except (socket.timeout, OSError):
                            pass
                except OSError:
                    pass
                s.close()
                with lock:
                    sent += 1
            except OSError:
                with lock:
                    sent += 1
    ths = [threading.Thread(target=sender, args=(jobs[i::8],)) for i in range(8)]
    for t in ths:
        t.start()
    for t in ths:
        t.join()
    probe("after-hostile-clients")
    # disconnect at every byte offset of valid handshakes
    valid = {("http", "direct"): b"".join(f[1] for f in BASE["http_req"]).replace(b"example.com:443", b"127.0.0.1:%d" % origin.port),
             ("socks5", "auth"): b"".join(f[1] for f in BASE["socks5_req"]),
             ("socks4", "direct"): b"".join(f[1] for f in BASE["socks4_req"])}
    for key, msg in valid.items():
        for k in range(len(msg)):
            try:
                s = socket.create_connection(("127.0.0.1", topo.ports[key]), timeout=3)
                s.sendall(msg[:k])
                s.close()
                sent += 1
            except OSError:
                pass
    while not origin.q.empty():
        origin.q.get().close()
    probe("after-disconnect-at-every-offset")
    # hostile upstreams: a fake upstream proxy answers the http / socks connectors of a second front proxy
    fake = FakeUpstream([d for dec, d in inputs if dec == "http_resp"][:300 if not thorough else 3000],
                        [d for dec, d in inputs if dec in ("socks5_resp", "socks4_resp")][:300 if not thorough else 3000])
    t2 = scen.Topology(wd, "c05u", splice=True)
    t2.cfg1 = t2.cfg1.replace("port: %d" % t2.p2_http, "port: %d" % fake.http_port).replace("port: %d" % t2.p2_socks, "port: %d" % fake.socks_port)
    t2.start()
    n_up = 0
    for k in range(len(fake.http_replies)):
        for proto, up in (("http", "uphttp"),):
            try:
                c, rep = t2.open(proto, up, T, timeout=3.0)
                c.close()
                n_up += 1
            except OSError:
                pass
    for k in range(len(fake.socks_replies)):
        for proto, up in (("socks5", "upsocks5"), ("http", "upsocks4")):
            try:
                c, rep = t2.open(proto, up, T, timeout=3.0)
                c.close()
                n_up += 1
            except OSError:
                pass
    ok2 = t2.p1.alive()
    try:
        c, rep = t2.open("http", "direct", T, timeout=5.0)
        ok2 = ok2 and bb.established(rep)
        c.close()
    except OSError:
        ok2 = False
    if not ok2:
        v.report("faults/process/after-hostile-upstreams", {"alive": t2.p1.alive(), "panic": str(t2.p1.panicked())[:300]}, {"after": "hostile upstream replies"})
    time.sleep(1.3)
    t2.stop()
    fake.close()
    topo.stop()
    origin.close()
    # process level trace: every hostile connection is accounted for with exactly one terminal state (TraceLife)
    lines, _, _ = life_run.gather(topo, [], 2000)
    # the trace spec's state is a family of functions over all contexts; TLC gets slow beyond a few hundred of them, so the
    # lifecycle of the first 6000 hostile connections is validated (all of them in the quick tier)
    K = 6000
    sub = [{"ev": "hdr", "n": min(K, lines[0]["n"]), "hist": 2000}]
    for e in lines[1:]:
        if e["ev"] in ("gc", "gc_take"):
            continue        # history / alive counts refer to all contexts
        if e.get("id", 0) < K:
            sub.append(e)
    life_run.validate(v, PID, wd, "hostile", sub, [], cfg="TraceLifeLite.cfg")
    return sent, n_up, len(sub)


class FakeUpstream:
    """accepts connections from the proxy's http / socks connectors and answers with the next hostile reply"""

    def __init__(self, http_replies, socks_replies):
        self.http_replies = http_replies
        self.socks_replies = socks_replies
        self.method_replies = [b"\x05\x00", b"\x05\x00", b"\x05\x02", b"\x05\x00", b"\x05\x01", b"\x05\xff", b"\x05\x80", b"\x04\x00", b"\x00\x00", b"\x05", b"",
                               b"\x05\x02\x01\x00", b"\x05\x02\x01\x01"]
        self.hs = socket.socket(); self.hs.bind(("127.0.0.1", 0)); self.hs.listen(64); self.http_port = self.hs.getsockname()[1]
        self.ss = socket.socket(); self.ss.bind(("127.0.0.1", 0)); self.ss.listen(64); self.socks_port = self.ss.getsockname()[1]
        self.stop = False
        self.i = 0
        self.j = 0
        threading.Thread(target=self._run, args=(self.hs, True), daemon=True).start()
        threading.Thread(target=self._run, args=(self.ss, False), daemon=True).start()

    def _run(self, ls, is_http):
        ls.settimeout(0.2)
        while not self.stop:
            try:
                s, _ = ls.accept()
            except socket.timeout:
                continue
            except OSError:
                return
            try:
                s.settimeout(0.5)
                try:
                    s.recv(4096)
                except (socket.timeout, OSError):
                    pass
                if is_http:
                    data = self.http_replies[self.i % max(len(self.http_replies), 1)] if self.http_replies else b""
                    self.i += 1
                else:
                    # the answer to the method offer varies too (a method the connector did not offer, one it offered but has no
                    # credentials for, a wrong version, nothing at all), then the (hostile) reply to the request
                    m = self.method_replies[self.j % len(self.method_replies)]
                    data = m + (self.socks_replies[self.j % max(len(self.socks_replies), 1)] if self.socks_replies else b"")
                    self.j += 1
                s.sendall(data)
                time.sleep(0.02)
            except OSError:
                pass
            finally:
                s.close()

    def close(self):
        self.stop = True
        self.hs.close()
        self.ss.close()


def run(tier, t0):
    v = vlib.Verdicts(PID)
    wd = vlib.workdir("c05")
    thorough = tier == "thorough"
    seed = vlib.seed()
    rnd = random.Random(seed)
    vlib.build_harness()
    g = vlib.tlc_must_pass(vlib.run_tlc("Faults", "Faults.cfg", workers=4, timeout=600), "Faults")
    life = vlib.tlc_must_pass(vlib.run_tlc("Life", "MCLife.cfg", workers=8, timeout=1200), "MCLife")
    if len(g.cases) < 300:
        raise vlib.ToolError("fault table too small")
    nrand = 2000 if thorough else 20
    inputs = []         # (decoder, bytes, case key)
    for c in g.cases:
        data = mutate(c["dec"], c["idx"], c["op"], c["param"], rnd)
        key = "%s/%s/%s/%s" % (c["dec"], c["field"], c["op"], c["param"])
        inputs.append((c["dec"], data, key))
    per_dec = {}
    for dec in BASE:
        base = b"".join(f[1] for f in BASE[dec])
        inputs.append((dec, base, dec + "/valid"))
        for k, d in enumerate(random_variants(base, rnd, nrand * 5)):
            inputs.append((dec, d, dec + "/random-mutation"))
        for k in range(nrand):
            inputs.append((dec, bytes(rnd.randrange(256) for _ in range(rnd.randint(0, 40))), dec + "/random-bytes"))
    cases = []
    meta = []
    for dec, data, key in inputs:
        for op in decode_ops(dec, data, len(cases)):
            op["id"] = len(cases)
            cases.append(op)
            meta.append((dec, key))
    path = os.path.join(wd, "cases.ndjson")
    vlib.write_ndjson(path, cases)
    res = os.path.join(wd, "res.ndjson")
    done = set()
    outcomes = {}
    attempts = 0
    while attempts < 20:
        attempts += 1
        todo = [c for c in cases if c["id"] not in done]
        if not todo:
            break
        vlib.write_ndjson(path, todo)
        rc, _, err = vlib.vh(["codec", path], stdout_path=res, timeout=3000)
        for r in vlib.read_ndjson(res):
            if r.get("summary"):
                continue
            done.add(r["id"])
            out = r.get("out") or r.get("stage")
            outcomes[out] = outcomes.get(out, 0) + 1
            if out in ("panic", "hang"):
                dec, key = meta[r["id"]]
                c = cases[r["id"]]
                v.report("faults/%s/%s/%s" % (out, c.get("codec", c["op"]), key), {"input_hex": (c.get("hex") or json.dumps(c.get("datagrams")))[:200],
                                                                                  "text": str(r.get("parsed"))[:200]}, {"driver": "vh codec", "case": c})
        if rc == 0:
            break
        if rc != 3:     # 3 = watchdog exit after a hang; everything else is a tool error
            raise vlib.ToolError("vh codec failed rc=%d: %s" % (rc, err))
    if len(done) != len(cases):
        raise vlib.ToolError("codec driver answered %d of %d" % (len(done), len(cases)))
    sent, n_up, n_events = blackbox(v, wd, [(d, b) for d, b, _ in inputs], rnd, thorough)
    ev = vlib.evidence(PID, tier, "fault_enumeration", {
        "evaluations": len(cases) + sent + n_up, "distinct_nontrivial": len({(m[1], c.get("hex", "")) for c, m in zip(cases, meta)}),
        "rule": "Faults.tla enumerates (decoder, field, corruption operator, parameter) for 9 peer-fed decoders; each becomes bytes, plus seeded "
                "random byte-level mutations of the valid message and pure random strings per decoder; fed in-process to the real decoders "
                "(incl. h11c_connect's reply handling, the stream frame reader, the datagram reassembler) under catch_unwind + watchdog; the "
                "same inputs go to real listeners (stalling or disconnecting), valid handshakes are cut at every offset, hostile upstream "
                "replies answer the http and socks connectors; after each phase every listener must serve a fresh tunnel and the API answer; "
                "the hostile run's lifecycle trace is validated by TraceLife",
        "samples": [{"case": inputs[i][2], "bytes": inputs[i][1][:60].hex()} for i in (3, len(g.cases) // 2, len(g.cases) + 5)],
        "fault_table_rows": len(g.cases), "in_process_cases": len(cases), "outcomes": outcomes, "blackbox_client_connections": sent,
        "blackbox_upstream_replies": n_up, "lifecycle_events_validated": n_events, "states": g.distinct + life.distinct,
    }, ["'all byte strings' is covered by grammar-directed enumeration + random sampling, not exhaustively",
        "QUIC datagram peers are exercised in-process (reassembler + frame parser), not over a live QUIC connection",
        "the harness build has overflow checks on and panic=unwind in-process / abort in the rp wrapper"])
    return v.finish(ev, t0)


def replay(path):
    r = json.load(open(path))
    rp = r["replay"]
    if "case" in rp:
        wd = vlib.workdir("c05_replay")
        p = os.path.join(wd, "case.ndjson")
        vlib.write_ndjson(p, [rp["case"]])
        rc, out, err = vlib.vh(["codec", p])
        print(out)
    else:
        print(rp)
    return 0

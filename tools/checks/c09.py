"""C09 - parser accepts the documented grammar and precedence. TLA+: spec/MiluGrammar.tla."""
import json, os, random
import vlib

PID = "C09"


def join(tokens):
    return " ".join(tokens)


def sx(tokens):
    return "".join(tokens)


def classify(r, case):
    """finding key: what failed + the operator tokens involved (sorted multiset of non-paren, non-leaf tokens)"""
    ops = [t for t in case["min"] if t not in ("(", ")", "a", "b", "c", "d", "e", "x")]
    if r["what"] in ("reject", "panic") and case.get("filler") is not None:
        return "parse/filler/%s/%s" % (r["what"], json.dumps(case["filler"]))
    return "parse/%s/%s" % (r["what"], " ".join(sorted(set(ops))))


def run(tier, t0):
    v = vlib.Verdicts(PID)
    wd = vlib.workdir("c09")
    thorough = tier == "thorough"
    seed = vlib.seed()
    vlib.build_harness()
    rnd = random.Random(seed)
    fam = {}
    states = trans = 0
    runs = [("chains", "Gram_full.cfg" if thorough else "Gram_quick.cfg", None),
            ("forks", "Gram_forks_full.cfg" if thorough else "Gram_forks_quick.cfg", None)]
    if thorough:
        runs.append(("random", "Gram_deep.cfg", 60))   # per worker; TLC evaluates every successor along each random walk
    for mode, cfg, sim in runs:
        r = vlib.run_tlc("MiluGrammar", cfg, workers=8, timeout=3000, xmx="12g", simulate=sim, depth=6 if sim else None,
                         seed_val=seed if sim else None, name="gram_" + mode)
        vlib.tlc_must_pass(r, mode)
        fam[mode] = r
        states += r.distinct
        trans += r.generated
        if not r.cases:
            raise vlib.ToolError("no cases for " + mode)
    fillers = fam["chains"].marked["FILL"][0]
    cases = []
    seen = set()
    for mode, r in fam.items():
        for c in r.cases:
            key = " ".join(c["min"])
            if key in seen:
                continue
            seen.add(key)
            cases.append({"id": len(cases), "fam": mode, "depth": c.get("depth", 0), "min": c["min"],
                          "texts": [join(c["min"]), join(c["full"])], "sexpr": sx(c["sexpr"]), "filler": None})
    fam["singles"] = type("X", (), {"cases": [c for c in fam["chains"].cases if c["depth"] == 1]})
    fam["pairs"] = type("X", (), {"cases": [c for c in fam["chains"].cases if c["depth"] == 2]})
    n_tree = len(cases)
    # filler: every token boundary of every single and pair (thorough) / a seeded third of the pairs (quick)
    for mode in ["singles", "pairs"]:
        for c in fam[mode].cases:
            if mode == "pairs" and not thorough and rnd.random() > 0.34:
                continue
            toks = c["min"]
            texts = []
            for f in fillers:
                for i in range(1, len(toks)):
                    texts.append(" ".join(toks[:i]) + f + " ".join(toks[i:]))
                # leading / all-boundaries variant
                texts.append(f.join(toks))
            cases.append({"id": len(cases), "fam": mode + "+filler", "min": toks, "texts": [join(toks)] + texts,
                          "sexpr": sx(c["sexpr"]), "filler": "any"})
    path = os.path.join(wd, "cases.ndjson")
    vlib.write_ndjson(path, [{"id": c["id"], "texts": c["texts"], "sexpr": c["sexpr"]} for c in cases])
    res = os.path.join(wd, "res.ndjson")
    rc, _, err = vlib.vh(["parse", path], stdout_path=res)
    if rc != 0:
        raise vlib.ToolError("vh parse failed: " + err)
    summ = None
    for r in vlib.read_ndjson(res):
        if r.get("summary"):
            summ = r
            continue
        c = cases[r["id"]]
        cc = dict(c)
        if c["filler"] is not None and r["k"] > 0:
            # which filler was it?
            per = len(c["min"])  # boundaries (len-1) + 1 all-boundaries text per filler
            cc["filler"] = fillers[(r["k"] - 1) // per]
        else:
            cc["filler"] = None
        v.report(classify(r, cc), {"text": r["text"], "expected_tree": r["sexpr"], "got": r.get("got") or r.get("err")},
                 {"driver": "vh parse", "case": {"id": 0, "texts": [r["text"]], "sexpr": r["sexpr"]}})
    if not summ or summ["cases"] != len(cases):
        raise vlib.ToolError("parse summary missing")
    ev = vlib.evidence(PID, tier, "model_checking", {
        "states": states, "transitions": trans,
        "traces_validated_against_impl": summ["texts"],
        "samples": [{"minimal": cases[i]["texts"][0], "full": cases[i]["texts"][1], "tree": cases[i]["sexpr"]}
                    for i in (3, n_tree // 2, n_tree - 5)] +
                   [{"filler_variant": cases[-1]["texts"][5], "tree": cases[-1]["sexpr"]}],
        "evaluations": summ["texts"], "distinct_nontrivial": len({c["sexpr"] for c in cases}),
        "rule": "TLC enumerates operator trees from the README table (singles, all ordered pairs in every operand slot, "
                "triples: chains and forks); for each tree Minimal(t) and Full(t) are parsed by the real parser and must print "
                "as Sexpr(t); filler variants put each filler at each token boundary; distinct = distinct trees",
        "trees": n_tree, "filler_cases": len(cases) - n_tree, "fillers": fillers, "exhaustive": True,
        "checker_cmd": fam["chains"].cmd,
    }, ["leaves are identifiers, so no typing is involved", "tokens are separated by one blank; filler replaces that blank",
        "trailing comment after the last token is not demanded (not 'between tokens')"])
    return v.finish(ev, t0)


def replay(path):
    r = json.load(open(path))
    wd = vlib.workdir("c09_replay")
    p = os.path.join(wd, "case.ndjson")
    vlib.write_ndjson(p, [r["replay"]["case"]])
    rc, out, err = vlib.vh(["parse", p])
    print(out)
    return 0

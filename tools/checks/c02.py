"""C02 - routing: first match wins, default deny, nothing leaks on deny; cidr_match = CIDR containment.
TLA+: spec/Proxy.tla (decision pipeline + invariants), MCProxy (all lists x requests), Cidr.tla."""
import json, os, ipaddress
import vlib

PID = "C02"
CONNECTORS = {"A": {"features": ["TcpForward"], "fail": False},
              "B": {"features": ["TcpForward", "UdpForward", "UdpBind"], "fail": False},
              "C": {"features": ["TcpForward", "UdpForward"], "fail": True}}


def req_json(r):
    return {"listener": r["listener"], "source": r["source"]["txt"], "feature": r["feature"],
            "target": {"kind": r["target"]["kind"], "host": r["target"]["host"], "port": r["target"]["port"]}}


def bits_to_ip(bits):
    n = int("".join(map(str, bits)), 2)
    return str(ipaddress.IPv4Address(n)) if len(bits) == 32 else str(ipaddress.IPv6Address(n))


def run(tier, t0):
    v = vlib.Verdicts(PID)
    wd = vlib.workdir("c02")
    thorough = tier == "thorough"
    vlib.build_harness()
    mc = vlib.tlc_must_pass(vlib.run_tlc("MCProxy", "MCProxyRouteFull.cfg" if thorough else "MCProxyRoute.cfg", workers=8,
                                         timeout=3400, xmx="16g"), "MCProxyRoute")
    # group TLC's cases by rule list; per (list, request) collect the admissible expectations
    groups = {}
    for c in mc.cases:
        rk = json.dumps(c["rules"], sort_keys=True)
        g = groups.setdefault(rk, {"rules": c["rules"], "reqs": {}})
        q = json.dumps(c["reqs"][0], sort_keys=True)
        g["reqs"].setdefault(q, {"req": c["reqs"][0], "expects": []})["expects"].append(c["expect"][0])
    if len(groups) < 100:
        raise vlib.ToolError("too few rule lists generated")
    cases = []
    index = []
    for rk, g in groups.items():
        qs = list(g["reqs"].values())
        cases.append({"id": len(cases), "connectors": CONNECTORS,
                      "rules": [dict(target=r["target"], **({"filter": r["filter"]} if r["fid"] != "none" else {})) for r in g["rules"]],
                      "reqs": [req_json(q["req"]) for q in qs]})
        index.append((g, qs))
    path = os.path.join(wd, "cases.ndjson")
    vlib.write_ndjson(path, cases)
    res = os.path.join(wd, "res.ndjson")
    rc, _, err = vlib.vh(["route", path], stdout_path=res)
    if rc != 0:
        raise vlib.ToolError("vh route failed: " + err)
    nreq = 0
    seen = 0
    outcomes = {}
    for r in vlib.read_ndjson(res):
        if r.get("summary"):
            continue
        seen += 1
        g, qs = index[r["id"]]
        fids = [x["fid"] + ">" + x["target"] for x in g["rules"]]
        if r["load"] != "ok":
            v.report("route/load/%s" % r["load"], {"rules": fids, "err": r.get("err")}, {"driver": "vh route", "case": cases[r["id"]]})
            continue
        for q, o in zip(qs, r["results"]):
            nreq += 1
            exps = q["expects"]
            e = exps[0]
            n = len(g["rules"])
            want_evals = [1] * e["evals"] + [0] * (n - e["evals"])
            served = e["phase"] in ("finished", "connfail")
            want_inv = [e["target"]] if served else []
            want_client = {"finished": ["connect", "finish"], "connfail": ["error"]}.get(e["phase"], ["error"])
            outcomes[e["phase"]] = outcomes.get(e["phase"], 0) + 1
            rep = {"driver": "vh route", "case": dict(cases[r["id"]], reqs=[req_json(q["req"])])}
            ctxd = {"rules": fids, "req": req_json(q["req"]), "expected": {"target": e["target"], "phase": e["phase"], "evals": want_evals},
                    "observed": {k: o[k] for k in ("invoked", "client", "evals", "connector", "states")}}
            if o["invoked"] != want_inv:
                v.report("route/wrong-upstream/%s" % e["phase"], ctxd, rep)
            elif o["evals"] != want_evals:
                v.report("route/evaluation-order", ctxd, rep)
            elif o["client"] != want_client:
                v.report("route/client-outcome/%s" % e["phase"], ctxd, rep)
            elif o["states"] not in [x["log"] for x in exps]:
                v.report("route/state-log/%s" % e["phase"], dict(ctxd, expected_logs=[x["log"] for x in exps]), rep)
            elif (o["connector"] if served else None) != (e["target"] if served else None):
                v.report("route/recorded-connector", ctxd, rep)
    if seen != len(cases):
        raise vlib.ToolError("route driver answered %d of %d" % (seen, len(cases)))
    for ph in ("finished", "denied", "nofeature"):
        if outcomes.get(ph, 0) == 0:
            raise vlib.ToolError("vacuous: no request with outcome " + ph)
    # cidr_match vectors
    cg = vlib.tlc_must_pass(vlib.run_tlc("Cidr", "Cidr.cfg", workers=4, timeout=600), "Cidr")
    tcases = []
    for i, c in enumerate(cg.cases):
        net = bits_to_ip(c["net"])
        a = bits_to_ip(c["a"])
        tcases.append({"id": i, "txt": 'cidr_match("%s", "%s/%d")' % (a, net, c["len"])})
    # family mismatch: never contained
    fam = [('1.2.3.4', '::/0'), ('::1', '0.0.0.0/0'), ('::ffff:1.2.3.4', '1.2.3.0/24'), ('1.2.3.4', '::ffff:1.2.3.0/120')]
    for a, n in fam:
        tcases.append({"id": len(tcases), "txt": 'cidr_match("%s", "%s")' % (a, n)})
    tp = os.path.join(wd, "cidr.ndjson")
    vlib.write_ndjson(tp, tcases)
    rc, out, err = vlib.vh(["types", tp])
    if rc != 0:
        raise vlib.ToolError("vh types failed: " + err)
    nc = 0
    for line in out.splitlines():
        if not line.strip():
            continue
        o = json.loads(line)
        nc += 1
        want = cg.cases[o["id"]]["expect"] if o["id"] < len(cg.cases) else False
        vals = o.get("vals") or []
        got = vals[0].get("ok", {}).get("v") if vals and "ok" in vals[0] else None
        if got is not want:
            why = cg.cases[o["id"]]["why"] if o["id"] < len(cg.cases) else "family mismatch"
            v.report("route/cidr/%s" % why.replace(" ", "-"), {"expr": tcases[o["id"]]["txt"], "expected": want, "observed": vals[:1] or o},
                     {"driver": "vh types", "case": tcases[o["id"]]})
    if nc != len(tcases):
        raise vlib.ToolError("cidr vectors answered %d of %d" % (nc, len(tcases)))
    ev = vlib.evidence(PID, tier, "model_checking", {
        "states": mc.distinct + cg.distinct, "transitions": mc.generated, "traces_validated_against_impl": nreq + nc,
        "samples": [{"rules": cases[i]["rules"], "request": cases[i]["reqs"][3], "expected": index[i][1][3]["expects"][0]} for i in (5, len(cases) // 2)]
                   + [{"cidr": tcases[77]["txt"], "expected": cg.cases[77]["expect"]}],
        "evaluations": nreq + nc, "distinct_nontrivial": nreq,
        "rule": "TLC explores Proxy.tla for every rule list up to the bound x every request of a 48-element attribute domain and checks "
                "RoutedByFirstMatch/NothingLeaks/UpstreamIsChosen in every state; every terminal state is replayed: the list is loaded by "
                "the real rules::from_config + set_rules, the request runs through the real process_request with recording connectors "
                "and a recording client callback; compared: connector invoked, per-rule evaluation counts, client outcome, state log, "
                "recorded connector; cidr_match on TLC-generated boundary vectors for every prefix length of both families",
        "rule_lists": len(cases), "requests": nreq, "outcomes": outcomes, "cidr_vectors": nc, "exhaustive": True, "checker_cmd": mc.cmd,
    }, ["recording connectors stand for upstreams; black-box deny-leak probes are part of C06's run",
        "networks in canonical form (host bits zero)"])
    return v.finish(ev, t0)


def replay(path):
    r = json.load(open(path))
    wd = vlib.workdir("c02_replay")
    p = os.path.join(wd, "case.ndjson")
    vlib.write_ndjson(p, [r["replay"]["case"]])
    rc, out, err = vlib.vh([r["replay"]["driver"].split()[1], p])
    print(out)
    return 0

"""C14 - the management API never blocks the data plane; a stalled client hurts only itself.
TLA+: Locks.tla + MCLocks (task programs x every stall set: NoStallPropagation), ProbeLocks (prediction vs probes)."""
import json, os, socket, threading, time
import vlib, bb, scen
from checks.c05 import BASE

PID = "C14"
DEADLINE = 5.0


def handshake_bytes(origin_port):
    t = b"127.0.0.1:%d" % origin_port
    return {
        ("http", "direct"): b"CONNECT " + t + b" HTTP/1.1\r\nHost: " + t + b"\r\nUser-Agent: stall\r\n\r\n",
        ("socks5", "direct"): b"\x05\x01\x00" + b"\x05\x01\x00\x01\x7f\x00\x00\x01" + origin_port.to_bytes(2, "big"),
        ("socks5", "auth"): b"\x05\x01\x02" + b"\x01\x05alice\x06secret" + b"\x05\x01\x00\x01\x7f\x00\x00\x01" + origin_port.to_bytes(2, "big"),
        ("socks4", "direct"): b"\x04\x01" + origin_port.to_bytes(2, "big") + b"\x7f\x00\x00\x01" + b"user\x00",
    }


def client_hello():
    """the first flight of a TLS client, produced by the ssl module without a socket"""
    import ssl
    ctx = ssl.SSLContext(ssl.PROTOCOL_TLS_CLIENT)
    ctx.check_hostname = False
    ctx.verify_mode = ssl.CERT_NONE
    inc, out = ssl.MemoryBIO(), ssl.MemoryBIO()
    o = ctx.wrap_bio(inc, out, server_hostname="localhost")
    try:
        o.do_handshake()
    except ssl.SSLWantReadError:
        pass
    return out.read()


def timed(fn):
    t0 = time.time()
    box = {}

    def run():
        try:
            box["r"] = fn()
        except Exception as e:
            box["e"] = repr(e)
    th = threading.Thread(target=run, daemon=True)
    th.start()
    th.join(DEADLINE)
    dt = time.time() - t0
    if th.is_alive():
        return False, dt, "no answer within %.0f s" % DEADLINE
    if "e" in box:
        return False, dt, box["e"]
    return bool(box["r"]), dt, ""


def patient(fn):
    """a request blocked by somebody else's stall stays blocked while the stall lasts (the stalled sockets are held open by
    the driver); a request that was merely slow on a busy machine succeeds when repeated: only a repeated failure counts"""
    ok, dt, why = timed(fn)
    tries = 1
    while not ok and tries < 3:
        time.sleep(1.0)
        ok, dt, why = timed(fn)
        tries += 1
    return ok, dt, why if not ok else ""


def probes(topo, origin, situation, rules_body):
    """one probe per API endpoint and per listener; returns records"""
    out = []
    api = topo.api1

    def api_call(path, method="GET", body=None):
        return lambda: topo.p1.api(api, path, method=method, body=body, timeout=DEADLINE + 1)[0] == 200
    eps = [("status", api_call("/status")), ("live", api_call("/live")), ("history", api_call("/history")), ("rules-get", api_call("/rules")),
           ("rules-post", api_call("/rules", "POST", rules_body)), ("metrics", api_call("/metrics")), ("logrotate", api_call("/logrotate", "POST", ""))]
    for name, fn in eps:
        ok, dt, why = patient(fn)
        out.append({"ev": "probe", "situation": situation, "kind": "api/" + name, "ok": ok, "seconds": round(dt, 2), "why": why})
    T = ("ipv4", "127.0.0.1", origin.port)

    def fresh(proto):
        def f():
            while not origin.q.empty():        # tunnels of other clients that got through meanwhile are not this probe's
                origin.q.get().close()
            c, rep = topo.open(proto, "direct", T, timeout=DEADLINE)
            ok = bb.established(rep)
            if ok:
                o = origin.accept(DEADLINE)
                c.send(b"ping")
                ok = o is not None and o.recv_some(timeout=DEADLINE, want=4) >= 4
                if o:
                    o.send(b"pong")
                    ok = ok and c.recv_some(timeout=DEADLINE, want=4) >= 4
                    o.close()
            c.close()
            return ok
        return f
    for proto in ("http", "socks5", "socks4", "https", "sockstls"):
        ok, dt, why = patient(fresh(proto))
        out.append({"ev": "probe", "situation": situation, "kind": "fresh/" + proto, "ok": ok, "seconds": round(dt, 2), "why": why})
    return out


def run(tier, t0):
    v = vlib.Verdicts(PID)
    wd = vlib.workdir("c14")
    thorough = tier == "thorough"
    vlib.build_harness()
    mc = vlib.tlc_must_pass(vlib.run_tlc("MCLocks", "MCLocks.cfg" if thorough else "MCLocksQ.cfg", workers=12 if thorough else 8, timeout=3000, xmx="24g"), "MCLocks")
    # the model is sensitive: with the programs of the original code NoStallPropagation fails
    asis = vlib.run_tlc("MCLocks", "MCLocksAsIs.cfg", workers=8, timeout=900, name="MCLocksAsIs")
    if asis.ok or "Inv is violated" not in asis.output:
        raise vlib.ToolError("self-test: the original lock programs should violate NoStallPropagation in the model")
    tls = vlib.tlc_must_pass(vlib.run_tlc("MCLocks", "MCLocksTls.cfg", workers=4, timeout=600, name="MCLocksTls"), "MCLocksTls")
    tlsl = vlib.run_tlc("MCLocks", "MCLocksTlsLocked.cfg", workers=4, timeout=600, name="MCLocksTlsLocked")
    if tlsl.ok or "Inv is violated" not in tlsl.output:
        raise vlib.ToolError("self-test: a TLS accept under the context's write lock should violate NoStallPropagation in the model")
    logm = vlib.tlc_must_pass(vlib.run_tlc("MCLocks", "MCLocksLog.cfg", workers=4, timeout=600, name="MCLocksLog"), "MCLocksLog")
    logl = vlib.run_tlc("MCLocks", "MCLocksLogLocked.cfg", workers=4, timeout=600, name="MCLocksLogLocked")
    if logl.ok or "Inv is violated" not in logl.output:
        raise vlib.ToolError("self-test: a collector that waits for the log sink under its mutexes should violate NoStallPropagation in the model")
    origin = bb.TcpOrigin()
    topo = scen.Topology(wd, "c14", splice=True, special=True, history=50, access_log=os.path.join(wd, "access.log")).start()
    st, body = topo.p1.api(topo.api1, "/rules")
    rules_body = json.dumps([{k: r[k] for k in ("target", "filter") if r.get(k) is not None} for r in json.loads(body)])
    records = []
    # positive control before anything is stalled
    ctrl = probes(topo, origin, "control", rules_body)
    if not all(r["ok"] for r in ctrl):
        raise vlib.ToolError("positive control failed: %s" % [r for r in ctrl if not r["ok"]])
    records += ctrl
    hs = handshake_bytes(origin.port)
    # clients that stall inside the TLS handshake of a TLS-wrapped listener (before the proxy handshake even starts)
    ch = client_hello()
    hs[("https", "direct")] = ch
    hs[("sockstls", "direct")] = ch
    held = []
    situations = 0
    for key, msg in hs.items():
        offs = list(range(len(msg) + 1)) if thorough else sorted(set([0, 1, 2, 3, len(msg) // 2, len(msg) - 1] + [i for i in range(len(msg)) if msg[i:i + 1] in (b" ", b"\r", b"\n", b"\x00", b"\x05")]))
        if key[0] in ("https", "sockstls"):
            # record header, inside the hello, the whole first flight (the server then waits for the client's second one)
            offs = sorted(set([0, 1, 3, 5, 6, len(msg) // 2, len(msg) - 1, len(msg)] + (list(range(0, len(msg), 16)) if thorough else [])))
        batch = []
        for k in offs:
            try:
                s = socket.create_connection(("127.0.0.1", topo.ports[key]), timeout=3)
                s.sendall(msg[:k])
                batch.append(s)
            except OSError:
                pass
        held += batch
        time.sleep(0.3)
        situations += 1
        records += probes(topo, origin, "stalled-handshakes/%s_%s/%d-clients" % (key[0], key[1], len(batch)), rules_body)
    # requests the http listener refuses (wrong method, unknown Proxy-Protocol) that announce a body and stall inside it
    for head in (b"POST http://127.0.0.1/ HTTP/1.1\r\nHost: x\r\nContent-Length: 100\r\n\r\n",
                 b"CONNECT 127.0.0.1:9 HTTP/1.1\r\nProxy-Protocol: sctp\r\nContent-Length: 100\r\n\r\n",
                 b"GET / HTTP/1.1\r\nContent-Length: 70000\r\n\r\n"):
        batch = []
        for nbody in (0, 1, 50, 99):
            try:
                s = socket.create_connection(("127.0.0.1", topo.ports[("http", "direct")]), timeout=3)
                s.sendall(head + b"x" * nbody)
                batch.append(s)
            except OSError:
                pass
        held += batch
        time.sleep(0.3)
        situations += 1
        records += probes(topo, origin, "stalled-in-refused-request-body/%s/%d-clients" % (head.split(b" ")[0].decode(), len(batch)), rules_body)
    # a stalled client in every state at once, through a gc tick
    time.sleep(1.2)
    records += probes(topo, origin, "all-stalled-handshakes/%d-clients" % len(held), rules_body)
    situations += 1
    # tunnels blocked on a slow peer: the origin never reads, the client writes until the proxy stops reading
    blocked = []
    for proto in ("http", "socks5"):
        c, rep = topo.open(proto, "direct", ("ipv4", "127.0.0.1", origin.port))
        o = origin.accept(3.0)
        if not bb.established(rep) or o is None:
            raise vlib.ToolError("could not set up a blocked tunnel")
        c.s.settimeout(0.2)
        sent = 0
        try:
            while sent < 64 << 20:
                sent += c.s.send(b"x" * 65536)
        except (socket.timeout, OSError):
            pass
        blocked.append((c, o, sent))
    records += probes(topo, origin, "tunnels-blocked-on-slow-origin/%d" % len(blocked), rules_body)
    situations += 1
    # slow client instead: the origin writes, the client never reads
    for proto in ("socks4",):
        c, rep = topo.open(proto, "direct", ("ipv4", "127.0.0.1", origin.port))
        o = origin.accept(3.0)
        o.s.settimeout(0.2)
        try:
            n = 0
            while n < 64 << 20:
                n += o.s.send(b"y" * 65536)
        except (socket.timeout, OSError):
            pass
        blocked.append((c, o, n))
    records += probes(topo, origin, "tunnel-blocked-on-slow-client", rules_body)
    situations += 1
    alive = topo.p1.alive()
    panic = topo.p1.panicked()
    for s in held:
        s.close()
    for c, o, _ in blocked:
        c.close(); o.close()
    topo.stop()
    origin.close()
    if not alive or panic:
        v.report("locks/proxy-died", str(panic)[:300], {})
    # the access-log sink stops draining (a pipe nobody reads): the collector gets stuck handing records over; the API and
    # fresh connections must not care
    fifo = os.path.join(wd, "access.fifo")
    if os.path.exists(fifo):
        os.remove(fifo)
    os.mkfifo(fifo)
    rfd = os.open(fifo, os.O_RDONLY | os.O_NONBLOCK)      # a reader that never reads
    origin2 = bb.TcpOrigin()
    topo2 = scen.Topology(wd, "c14log", splice=True, special=True, history=50, access_log=fifo).start()
    try:
        for k in range(500):
            try:
                s = socket.create_connection(("127.0.0.1", topo2.ports[("http", "deny")]), timeout=3)
                s.sendall(b"CONNECT 127.0.0.1:9 HTTP/1.1\r\n\r\n")
                s.settimeout(3)
                while s.recv(4096):
                    pass
                s.close()
            except OSError:
                pass
        time.sleep(3.5)
        st2, body2 = topo2.p1.api(topo2.api1, "/rules")
        rb2 = json.dumps([{k: r[k] for k in ("target", "filter") if r.get(k) is not None} for r in json.loads(body2)])
        # (POST /logrotate talks to the log task itself: with a sink that does not drain it has nobody to talk to - not probed here)
        records += [r for r in probes(topo2, origin2, "log-sink-stalled/500-finished-connections", rb2) if r["kind"] != "api/logrotate"]
        situations += 1
        if not topo2.p1.alive() or topo2.p1.panicked():
            v.report("locks/proxy-died/log-sink", str(topo2.p1.panicked())[:300], {})
    finally:
        topo2.p1.kill9(); topo2.p2.stop()
        os.close(rfd)
        origin2.close()
    pp = os.path.join(wd, "probes.ndjson")
    vlib.write_ndjson(pp, records)
    g = vlib.tlc_must_pass(vlib.run_tlc("ProbeLocks", "ProbeLocks.cfg", workers=1, timeout=300, env_extra={"PROBES": pp}), "ProbeLocks")
    if g.distinct < len(records):
        raise vlib.ToolError("ProbeLocks did not visit every record")
    for c in g.cases:
        r = c["rec"]
        v.report("locks/blocked/%s/%s" % (r["situation"].split("/")[0] + ("/" + r["situation"].split("/")[1] if r["situation"].startswith("stalled-handshakes") else ""), r["kind"]),
                 r, {"probe": r})
    ev = vlib.evidence(PID, tier, "model_checking", {
        "states": mc.distinct, "transitions": mc.generated, "traces_validated_against_impl": len(records),
        "samples": [records[0], records[len(records) // 2], records[-1]],
        "evaluations": len(records), "distinct_nontrivial": len({(r["situation"], r["kind"]) for r in records}),
        "rule": "MCLocks: lock/peer-wait programs of an HTTP listener task, a SOCKS listener task, a fresh connection, /live, POST /rules and gc over the "
                "registry mutex, history mutex, rules RwLock and per-connection RwLocks with FIFO write-preferring queues, every subset of stalled "
                "peers: NoStallPropagation at every terminal state (and the original code's programs violate it - self-test); on the real process: "
                "clients stalled at every chosen offset of the http / socks5 / socks5-with-auth / socks4 handshakes, all of them at once across a gc "
                "tick, tunnels blocked on a slow origin and on a slow client; in each situation every API endpoint and a fresh tunnel per listener "
                "must complete within 5 s",
        "situations": situations, "stalled_clients": len(held), "self_test_original_programs_violate": True, "exhaustive": False, "checker_cmd": mc.cmd,
    }, ["lock programs are transcribed from the code by hand (references in MCLocks.tla); the binding is black-box",
        "5 s deadline per probe next to a positive control taken before any stall"])
    return v.finish(ev, t0)


def replay(path):
    print(json.dumps(json.load(open(path))["replay"])[:3000])
    return 0

"""C19 - service resumes after an upstream outage without restarting the proxy.
TLA+: Upstream.tla (dial / cached-QUIC / load-balanced connectors, kill / stall / impostor / restart, idle timer),
MCUpstream (Recovery, CleanClose, Isolation; the original code's switches violate them), TraceUpstream (impl -> spec)."""
import json, os, threading, time
import vlib, bb, scen
import upstream_run as U

PID = "C19"
# the QUIC connector's idle period (common/quic.rs create_quic_client) is 30 s, its keep-alive 10 s; the idle timer is re-armed
# by the first packet sent after the last one received, so a connection that was idle when its peer vanished is noticed
# at the latest keep-alive + idle = 40 s after the peer was last heard
IDLE_S = 40


def scenario(v, wd, name, kinds, thorough, out):
    """one front proxy, its upstreams, faults on the given connector kinds one after the other; returns the record list"""
    w = U.World(wd, name).start()
    bg = w.background_ok()
    tid = [0]

    def probe(k, phase, timeout=4.0, patient=True, dest=None):
        before = len(w.p1.trace()) if k == "quic" else 0
        o = w.probe(k, phase, timeout=timeout, dest=dest)
        if o != "ok" and patient and phase in ("warm", "recovered", "recovered-2", "recovered-3", "continued"):
            # where the model demands success a slow answer on a busy machine must not count as an outage:
            # the failed attempt is replaced by one patient attempt ("a small bounded number of attempts")
            with w.rlock:
                w.records.remove(w.last_probe[k])
            time.sleep(1.0)
            o = w.probe(k, phase, timeout=20.0)
        if k == "quic":
            ops = [e["op"] for e in w.p1.trace()[before:] if e["ev"] == "quic_conn"]
            r = w.last_probe[k]
            if o == "hang":
                ops = [x for x in ops if x != "create"]       # a retry that completed meanwhile belongs to an earlier request
            r["op"] = "reuse+clear" if "clear" in ops else "create" if "create" in ops else "reuse" if "reuse" in ops else "-"
        return o

    def topen(k, control=False):
        c = w.open_tunnel(k)
        if c is None:
            if control:
                raise vlib.ToolError("could not open a tunnel through %s" % k)
            return None         # the probes next to it tell the story
        tid[0] += 1
        w.rec({"ev": "topen", "kind": k, "tid": tid[0]})
        return (tid[0], c)

    def tcheck(t, k, wait):
        """closed (EOF / reset) within `wait` seconds, or still echoing"""
        i, c = t
        end = time.time() + wait
        closed = False
        while time.time() < end:
            c.recv_some(timeout=min(0.5, max(end - time.time(), 0.01)), want=1 << 30)
            if c.eof or c.err is not None:
                closed = True
                break
        works = False
        if not closed:
            c.rx = bytearray()
            c.send(b"still?")
            c.recv_some(timeout=2.0, want=6)
            works = bytes(c.rx[:6]) == b"still?"
            # `closed` stays what the quiet client saw: a tunnel that only ends once the client writes into it was not closed
        w.rec({"ev": "tcheck", "kind": k, "tid": i, "closed": closed, "works": works})
        return closed, works

    def until_ok(k, phase, limit):
        end = time.time() + limit
        n = 0
        while time.time() < end:
            n += 1
            if probe(k, phase) == "ok":
                return n
            time.sleep(0.5)
        return None

    try:
        for k in kinds:
            quic = k == "quic"
            for _ in range(2):
                if probe(k, "warm") != "ok":
                    raise vlib.ToolError("positive control failed: %s" % w.last_probe[k])
            # ---- outage 1: killed mid-transfer, probes while away, restart ----
            ts = [topen(k, True)] + ([topen(k, True)] if k == "lb" else [])
            w.down(k, "kill")
            if quic:
                # nobody tells a QUIC client that the peer is gone: requests hang until the idle timer
                for _ in range(2):
                    probe(k, "down", timeout=2.0)
                w.back(k, "kill")
                probe(k, "back-early", timeout=2.0)
                closed_by = time.time() + IDLE_S + 4
                for t in ts:
                    tcheck(t, k, max(closed_by - time.time(), 0.5))
                t_wait = w.up_since[k] + IDLE_S + 4.5 - time.time()
                if t_wait > 0:
                    time.sleep(t_wait)
            else:
                for t in ts:
                    tcheck(t, k, 3.0)
                for _ in range(8 if k == "lb" else 3):      # the balancer alternates: 8 requests = 4 on the member that is away
                    probe(k, "down", timeout=3.0)
                w.back(k, "kill")
                time.sleep(0.15)
            # from here on the model demands success (Recovery)
            for _ in range(3):
                probe(k, "recovered")
            ts = [t for t in [topen(k)] if t]
            # a destination that refuses (the upstream itself is fine): that request fails, nothing else is touched -
            # in particular not the other tunnels multiplexed on a shared upstream connection
            if k != "direct":
                probe(k, "refused-dest", dest="closed")
                probe(k, "refused-dest", dest="closed")
                for t in ts:
                    tcheck(t, k, 0.6)
                probe(k, "recovered")
            # ---- outage 2: the upstream stalls (accepts, never answers), continues ----
            if k != "direct":
                w.down(k, "stall")
                probe(k, "stalled", timeout=2.0)
                probe(k, "stalled", timeout=2.0)
                w.back(k, "stall")
                time.sleep(0.15 if not quic else 1.0)
                if quic:
                    # a stall shorter than the idle period: the cached connection survives
                    pass
                for _ in range(2):
                    probe(k, "continued")
                for t in ts:
                    tcheck(t, k, 0.3)
            # ---- outage 3 (TCP kinds): killed, an impostor answers on the port, restart ----
            # (not for `direct`: there the impostor IS the destination, an accepted connection is a tunnel)
            if not quic and k != "direct" and (thorough or k in ("http", "socks")):
                w.down(k, "kill")
                for t in ts:
                    tcheck(t, k, 3.0)
                for mode in ("close", "garbage", "hold"):
                    w.hijack(k, mode, probes=2, probe_fn=lambda kk, ph, timeout=2.0: probe(kk, ph, timeout=timeout))
                    w.rec({"ev": "fault", "kind": k, "how": "kill", "up": "lb1" if k == "lb" else k})       # the impostor leaves: nothing listens
                w.back(k, "kill")
                time.sleep(0.15)
                for _ in range(3):
                    probe(k, "recovered-2")
            if quic:
                # ---- outage 3 (QUIC): long enough for the connector to notice, to try a new connection and to see that attempt
                # run into its own timeout while the upstream is still away; once the upstream is back the next request
                # finds nothing cached, nothing retrying - and must simply work
                w.down(k, "kill")
                for t in ts:
                    tcheck(t, k, IDLE_S + 4)
                probe(k, "down-nocache", timeout=2.0)
                time.sleep(33.0)
                w.back(k, "kill")
                time.sleep(1.0)
                for _ in range(3):
                    probe(k, "recovered-2")
            if k == "lb":
                # the OTHER member has its outage later, long enough for a balancer that keeps score to notice; when both
                # members are back every request must be served again (nothing remembered from past failures)
                w.down(k, "kill", member="lb2")
                for _ in range(8):
                    probe(k, "down-2", timeout=3.0)
                w.back(k, "kill", member="lb2")
                time.sleep(0.15)
                for _ in range(6):
                    probe(k, "recovered-3")
            if quic and thorough:
                # repeated outage of the QUIC upstream: kill while idle, restart, wait the grace period, must serve
                w.down(k, "kill")
                w.back(k, "kill")
                time.sleep(IDLE_S + 4.5)
                for _ in range(3):
                    probe(k, "recovered-2")
    finally:
        alive = w.p1.alive()
        panic = w.p1.panicked()
        w.stop()
    if not alive or panic:
        v.report("upstream/front-proxy-died", str(panic)[:300], {"scenario": name})
    out[name] = w
    return w


def run(tier, t0):
    v = vlib.Verdicts(PID)
    wd = vlib.workdir("c19")
    thorough = tier == "thorough"
    vlib.build_harness()
    mc = vlib.tlc_must_pass(vlib.run_tlc("MCUpstream", "MCUpstreamFixedT.cfg" if thorough else "MCUpstreamFixed.cfg", workers=8, timeout=3000, xmx="16g"), "MCUpstream")
    asis = vlib.run_tlc("MCUpstream", "MCUpstreamAsIs.cfg", workers=4, timeout=600, name="MCUpstreamAsIs")
    if asis.ok or "Inv is violated" not in asis.output:
        raise vlib.ToolError("self-test: with the original code's switches (no effective idle timer) the model must violate Recovery / CleanClose")
    # real processes: the QUIC scenario is dominated by waiting for the idle timer; the others run next to it
    out = {}
    groups = [("c19_quic", ["quic"]), ("c19_tcp", ["http", "socks", "direct", "lb"])]
    ths = [threading.Thread(target=scenario, args=(v, wd, n, ks, thorough, out)) for n, ks in groups]
    errs = []

    def guard(th_fn, *a):
        try:
            th_fn(*a)
        except Exception as e:      # noqa
            errs.append(e)
    ths = [threading.Thread(target=guard, args=(scenario, v, wd, n, ks, thorough, out)) for n, ks in groups]
    for th in ths:
        th.start()
    for th in ths:
        th.join()
    if errs:
        raise errs[0] if isinstance(errs[0], vlib.ToolError) else vlib.ToolError(repr(errs[0]))
    ntr = 0
    nrec = 0
    samples = []
    bgstats = {}
    for name, w in out.items():
        lines = []
        for r in w.records:
            if r["ev"] == "probe" and r["kind"] == "ok" and r["phase"] == "background":
                continue
            x = dict(r)
            x["t"] = int(round(r["t"] * 10))
            if r["ev"] == "probe":
                x["ds"] = int(round(r["seconds"] * 10))
                x.setdefault("op", "-")
                x.pop("seconds", None)
                if r["outcome"] == "broken":
                    v.report("upstream/%s/tunnel-established-but-broken" % r["kind"], r, {"scenario": name})
            lines.append(x)
        # healthy traffic on the upstream that is never touched: every background probe succeeds, quickly
        bgp = [r for r in w.records if r["ev"] == "probe" and r["kind"] == "ok"]
        # one slow answer on a busy machine is not an outage: two failures in a row are
        bad = [b for a, b in zip(bgp, bgp[1:]) if a["outcome"] != "ok" and b["outcome"] != "ok"]
        bgstats[name] = {"probes": len(bgp), "bad": len(bad), "single_slow_or_failed": sum(1 for r in bgp if r["outcome"] != "ok")}
        if len(bgp) < 20:
            raise vlib.ToolError("too few background probes")
        if bad:
            v.report("upstream/healthy-upstream-affected", {"bad": bad[:3], "of": len(bgp)}, {"scenario": name})
        tp = os.path.join(wd, "trace_%s.ndjson" % name)
        vlib.write_ndjson(tp, lines)
        acc, info, tr = vlib.validate_trace("TraceUpstream", "TraceUpstream.cfg", tp, timeout=900, name="trace_up_" + name)
        ntr += 1
        nrec += len(lines)
        samples.append({"scenario": name, "records": lines[:4], "last": lines[-1]})
        if not acc:
            keep = os.path.join(vlib.EVID, "replay", "trace_C19_%s.ndjson" % name)
            os.makedirs(os.path.dirname(keep), exist_ok=True)
            vlib.write_ndjson(keep, lines)
            first = {}
            try:
                import re
                m = re.search(r'first unmatched", "(.*)"', info)
                first = json.loads(m.group(1).replace('\\"', '"')) if m else {}
            except Exception:   # noqa
                pass
            key = "upstream/trace-rejected/%s/%s/%s/%s" % (first.get("kind", "?"), first.get("ev", "?"), first.get("phase", first.get("how", "-")),
                                                         first.get("outcome", "closed=%s" % first.get("closed") if "closed" in first else "-"))
            v.report(key, {"info": info[:500]}, {"trace": keep, "cmd": "cd spec && TRACE=%s tlc -workers 1 -config TraceUpstream.cfg TraceUpstream.tla" % keep})
    ev = vlib.evidence(PID, tier, "model_checking", {
        "states": mc.distinct, "transitions": mc.generated, "traces_validated_against_impl": ntr,
        "samples": samples, "evaluations": nrec, "distinct_nontrivial": nrec,
        "rule": "MCUpstream: a dial connector, a cached-connection QUIC connector and a load balancer over two dial members, 4 upstreams, "
                "kill / stall / impostor / restart / continue, explicit time with the idle timer: Recovery (once the upstream has been back for the "
                "grace period no request fails), CleanClose (no tunnel of a dead incarnation outlives the idle period), Isolation (action property); "
                "the original code's switches violate them (self-test). On real processes: a front proxy with direct, http, socks, quic and "
                "load-balanced connectors, each towards its own upstream process that the driver kills -9 mid-transfer, stalls with SIGSTOP, replaces "
                "by impostors (close / garbage / accept-and-hold) and restarts; every probe, fault and tunnel check is one record, the record "
                "sequence is validated by TraceUpstream (outcome and get_connection operation allowed by the model in that state, Recovery as a "
                "guard on every probe); background probes through an untouched upstream must all succeed",
        "background": bgstats, "self_test_original_switches_violate": True, "exhaustive": False, "checker_cmd": mc.cmd,
    }, ["QUIC keep-alive 10 s + idle period 30 s + 4 s slack as the recovery bound; dial connectors must serve 150 ms after the restart",
        "packet loss / partitions are not emulated: 'silently dropped' is SIGSTOP and kill -9 of a QUIC peer"])
    return v.finish(ev, t0)


def replay(path):
    print(json.dumps(json.load(open(path))["replay"])[:3000])
    return 0

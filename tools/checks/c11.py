"""C11 - fragmentation / reassembly exact under reordering and duplication.
TLA+: spec/Frag.tla (design), MCFrag (bounded instance), GenFrag*/GridFrag (oracles), TraceFrag (impl->spec)."""
import json, os, collections
import vlib
from vlib import log

PID = "C11"
ACTIONS = ["Send", "DeliverGood", "Inject", "Tick"]


def key_of(r):
    k = "frag/%s/%s" % (r.get("kind") or r.get("op"), r["what"])
    if r.get("after"):
        k += "/after:" + "+".join(r["after"])
    return k


def replay_cases(v, cases, tag, wd, seed, samples):
    path = os.path.join(wd, tag + "_cases.ndjson")
    vlib.write_ndjson(path, cases)
    res = os.path.join(wd, tag + "_res.ndjson")
    rc, _, err = vlib.vh(["frag", path, str(seed), "2"], stdout_path=res)
    if rc != 0:
        raise vlib.ToolError("vh frag failed rc=%d %s" % (rc, err))
    summ = None
    for r in vlib.read_ndjson(res):
        if r.get("summary"):
            summ = r
            continue
        v.report(key_of(r), {"step": r["step"], "expected": r["expected"], "observed": r["observed"], "mtu": r["mtu"]},
                 {"driver": "vh frag", "case": {"h": r["h"]}, "seed": seed})
    if summ is None or summ["cases"] != len(cases):
        raise vlib.ToolError("replay summary missing")
    if cases:
        samples.append({"kind": tag, "calls": cases[len(cases) // 2]["h"]})
    return summ


def run(tier, t0):
    v = vlib.Verdicts(PID)
    wd = vlib.workdir("c11")
    seed = vlib.seed()
    thorough = tier == "thorough"
    vlib.build_harness()
    # 1. design model, exhaustive within the constants of the cfg
    mc = vlib.run_tlc("MCFrag", "MCFragT.cfg" if thorough else "MCFrag.cfg", workers=12 if thorough else 8,
                      timeout=3000 if thorough else 900, coverage=False)
    vlib.tlc_must_pass(mc, "MCFrag")
    cov = vlib.run_tlc("MCFrag", "MCFragCov.cfg", workers=4, timeout=300, coverage=True, name="MCFragCov")
    vlib.tlc_must_pass(cov, "MCFragCov")
    vlib.require_coverage(cov, ACTIONS)
    samples = []
    # 2. spec -> impl: every bounded behaviour replayed on the real Fragments<Frame>
    g1 = vlib.tlc_must_pass(vlib.run_tlc("MCFrag", "GenFrag5.cfg" if thorough else "GenFrag.cfg", workers=8,
                                         timeout=1800, name="GenFrag"), "GenFrag")
    s1 = replay_cases(v, g1.cases, "untimed", wd, seed, samples)
    g2 = vlib.tlc_must_pass(vlib.run_tlc("MCFrag", "GenFragT.cfg", workers=8, timeout=1800, name="GenFragT"), "GenFragT")
    s2 = replay_cases(v, g2.cases, "timed", wd, seed, samples)
    if not g1.cases or not g2.cases:
        raise vlib.ToolError("no behaviours generated")
    # 3. size grid + orders + id wrap on real frames, judged by GridFrag.tla
    rc, out, err = vlib.vh(["frag-grid", str(seed), "1" if thorough else "0"])
    if rc != 0:
        raise vlib.ToolError("vh frag-grid failed: " + err)
    recs = [json.loads(l) for l in out.splitlines() if l.strip()]
    grid = [r for r in recs if r.get("grid")]
    wrap = [r for r in recs if r.get("wrap")]
    gpath = os.path.join(wd, "grid.ndjson")
    vlib.write_ndjson(gpath, grid)
    gr = vlib.tlc_must_pass(vlib.run_tlc("GridFrag", "GridFrag.cfg", workers=1, timeout=600,
                                         env_extra={"GRID": gpath}), "GridFrag")
    if gr.distinct < len(grid):
        raise vlib.ToolError("GridFrag did not visit every record")
    for c in gr.cases:
        rec = grid[c["idx"] - 1]
        v.report("frag/grid/" + c["verdict"], {"len": c["len"], "mtu": c["mtu"], "expected_fragments": c["expect"],
                                               "observed": {k: rec[k] for k in rec if k != "orders"}},
                 {"driver": "vh frag-grid", "record": rec})
    for w in wrap:
        if w.get("panic") or w.get("ok") != w["frames"] or w.get("qlen") != 0:
            v.report("frag/idwrap", w, {"driver": "vh frag-grid", "record": w})
    samples.append({"kind": "grid", "record": grid[len(grid) // 3]})
    # 4. impl -> spec: random long call logs of the real object validated by TraceFrag
    ntr, ln = (200, 300) if thorough else (40, 200)
    tpath = os.path.join(wd, "trace.ndjson")
    rc, _, err = vlib.vh(["frag-trace", str(seed), str(ntr), str(ln)], stdout_path=tpath)
    if rc != 0:
        raise vlib.ToolError("vh frag-trace failed: " + err)
    nev = sum(1 for _ in open(tpath))
    acc, info, tr = vlib.validate_trace("TraceFrag", "TraceFrag.cfg", tpath, timeout=1200)
    if not acc:
        keep = os.path.join(vlib.EVID, "replay", "C11_trace.ndjson")
        os.makedirs(os.path.dirname(keep), exist_ok=True)
        import shutil
        shutil.copy(tpath, keep)
        v.report("frag/trace-rejected", info, {"trace": keep, "cmd": "TRACE=%s tlc -config TraceFrag.cfg TraceFrag.tla" % keep})
    ev = vlib.evidence(PID, tier, "model_checking", {
        "states": mc.distinct, "transitions": mc.generated,
        "traces_validated_against_impl": s1["cases"] + s2["cases"] + ntr,
        "samples": samples[:4],
        "evaluations": s1["cases"] + s2["cases"] + len(grid) + ntr,
        "distinct_nontrivial": len({vlib.digest(c) for c in g1.cases + g2.cases}) + len(grid),
        "rule": "TLC enumerates every call sequence of the bounded Frag model (constants in the cfg); each is replayed on the "
                "real Fragments<Frame>/make_fragments with real frames and compared call by call (return value, queue length); "
                "distinct = distinct call sequences + distinct (len,mtu) grid points",
        "behaviours_untimed": s1["cases"], "behaviours_timed": s2["cases"], "replayed_calls": s1["steps"] + s2["steps"],
        "grid_points": len(grid), "idwrap_frames": wrap[0]["frames"] if wrap else 0,
        "trace_events_validated": nev, "trace_accepted": acc,
        "mc_cfg": "MCFragT.cfg" if thorough else "MCFrag.cfg", "mc_depth": mc.depth,
        "coverage_actions": {a: cov.coverage.get(a, 0) for a in ACTIONS},
        "exhaustive": True,
        "checker_cmd": mc.cmd,
    }, ["loopback-free: pure in-process calls", "virtual clock offset hook (vtrace::skew) stands for the passage of time",
        "premise of the property: an id is reused only after the earlier user's state is gone and its fragments stop arriving",
        "a second complete set of fragments of the same frame may yield the frame again (the wire format has no other identity)"])
    return v.finish(ev, t0)


def replay(path):
    r = json.load(open(path))
    rp = r["replay"]
    if "case" in rp:
        wd = vlib.workdir("c11_replay")
        p = os.path.join(wd, "case.ndjson")
        vlib.write_ndjson(p, [rp["case"]])
        rc, out, err = vlib.vh(["frag", p, str(rp.get("seed", 1)), "2"])
        print(out)
        return 0
    print(json.dumps(rp))
    return 0

"""C12 - stream decoders insensitive to segmentation; truncation never yields a message.
TLA+: spec/Segm.tla (abstract buffered decoder, all compositions/truncations; generator of compositions)."""
import json, os, random, struct
import vlib

PID = "C12"
H = lambda b: b.hex()


def messages():
    """(name, codec, message bytes, list of trailing payloads)"""
    m = []
    tr = [b"", b"\x16\x03\x01TRAIL\x00\xff\r\n"]
    m.append(("http-min", "http_req", b"CONNECT a:1 HTTP/1.1\r\n\r\n", tr))
    m.append(("http-hdrs", "http_req", b"CONNECT example.com:443 HTTP/1.1\r\nHost: example.com:443\r\nProxy-Protocol: udp\r\nProxy-Channel: inline\r\n\r\n", tr))
    m.append(("http-v6", "http_req", b"CONNECT [2001:db8::1]:65535 HTTP/1.0\r\nHost: [2001:db8::1]:65535\r\nUser-Agent: x y z\r\n\r\n", tr))
    m.append(("resp-min", "http_resp", b"HTTP/1.1 200 OK\r\n\r\n", tr))
    m.append(("resp-sid", "http_resp", b"HTTP/1.1 200 Connection established\r\nSession-Id: 42\r\nUdp-Bind-Address: 127.0.0.1:9\r\n\r\n", tr))
    m.append(("resp-503", "http_resp", b"HTTP/1.1 503 Service unavailable\r\nContent-Type: text/plain\r\nContent-Length: 3\r\n\r\n", [b"abc"]))
    m.append(("s4", "socks_req", b"\x04\x01\x00\x50\x01\x02\x03\x04\x00", tr))
    m.append(("s4-id", "socks_req", b"\x04\x01\x01\xbb\x7f\x00\x00\x01user\x00", tr))
    m.append(("s4a", "socks_req", b"\x04\x01\x00\x50\x00\x00\x00\x07id\x00example.org\x00", tr))
    m.append(("s5-v4", "socks_req", b"\x05\x01\x00" + b"\x05\x01\x00\x01\x0a\x00\x00\x01\x1f\x90", tr))
    m.append(("s5-dom", "socks_req", b"\x05\x02\x00\x02" + b"\x05\x01\x00\x03\x0bexample.com\x01\xbb", tr))
    m.append(("s5-v6", "socks_req", b"\x05\x01\x00" + b"\x05\x01\x00\x04" + bytes(range(16)) + b"\xff\xff", tr))
    m.append(("s5-udp", "socks_req", b"\x05\x01\x00" + b"\x05\x03\x00\x01\x00\x00\x00\x00\x00\x00", tr))
    m.append(("s5-auth", "socks_req_auth", b"\x05\x02\x00\x02" + b"\x01\x04user\x06secret" + b"\x05\x01\x00\x03\x03a.b\x00\x50", tr))
    m.append(("s5-auth-empty", "socks_req_auth", b"\x05\x01\x02" + b"\x01\x00\x00" + b"\x05\x01\x00\x01\x01\x01\x01\x01\x00\x01", tr))
    m.append(("r4", "socks_resp", b"\x00\x5a\x00\x50\x01\x02\x03\x04", tr))
    m.append(("r5-v4", "socks_resp", b"\x05\x00\x00\x01\x7f\x00\x00\x01\x04\x38", tr))
    m.append(("r5-dom", "socks_resp", b"\x05\x00\x00\x03\x05a.b.c\x00\x35", tr))
    m.append(("r5-v6", "socks_resp", b"\x05\x01\x00\x04" + bytes(16) + b"\x00\x00", tr))

    def rpfm(sid, addr, body):
        return b"RPFM" + struct.pack(">IHH", sid, len(addr), len(body)) + addr + body
    a4 = b"\x01\x06\x01\x02\x03\x04\x00\x35"
    a6 = b"\x02\x12" + bytes(range(16)) + b"\x01\xbb"
    ah = b"\x03\x0d" + b"example.com" + b"\x00\x35"
    m.append(("rpfm-1", "rpfm_stream", rpfm(1, a4, b"hello"), [b""]))
    m.append(("rpfm-empty", "rpfm_stream", rpfm(7, b"", b""), [b""]))
    m.append(("rpfm-3", "rpfm_stream", rpfm(1, a4, b"x" * 30) + rpfm(1, a6, b"") + rpfm(1, ah, bytes(range(200))), [b""]))
    return m


def comps_random(n, rnd, k):
    out = []
    for _ in range(k):
        cuts = sorted(rnd.sample(range(1, n), rnd.randint(1, min(n - 1, 12)))) if n > 1 else []
        segs = [b - a for a, b in zip([0] + cuts, cuts + [n])]
        out.append(segs)
    return out


def run(tier, t0):
    v = vlib.Verdicts(PID)
    wd = vlib.workdir("c12")
    thorough = tier == "thorough"
    seed = vlib.seed()
    rnd = random.Random(seed)
    vlib.build_harness()
    mc = vlib.tlc_must_pass(vlib.run_tlc("Segm", "MCSegmT.cfg" if thorough else "MCSegm.cfg", workers=8, timeout=1800), "MCSegm")
    if mc.distinct < 1000:
        raise vlib.ToolError("vacuous Segm model")
    msgs = messages()
    exh_max = 16 if thorough else 13
    lens = sorted({len(b) + len(t) for _, _, b, trs in msgs for t in trs if len(b) + len(t) <= exh_max})
    cfg = os.path.join(wd, "GenSegm.cfg")
    open(cfg, "w").write(open(os.path.join(vlib.SPEC, "GenSegm.cfg")).read().replace("Lens <- GenLens", "Lens = {%s}" % ", ".join(map(str, lens))))
    gen = vlib.tlc_must_pass(vlib.run_tlc("Segm", cfg, workers=8, timeout=1800, name="GenSegm"), "GenSegm")
    by_len = {}
    for c in gen.cases:
        by_len.setdefault(c["n"], []).append(c["segs"])
    cases = []
    meta = []

    def add(name, codec, data, segs, kind, msglen, trail, cap=8192):
        cases.append({"id": len(cases), "op": "decode", "codec": codec, "hex": H(data), "segs": segs, "cap": cap})
        meta.append({"name": name, "kind": kind, "msglen": msglen, "trail": trail, "segs": segs, "codec": codec})

    nrand = 400 if thorough else 60
    for name, codec, body, trs in msgs:
        for t in trs:
            data = body + t
            n = len(data)
            add(name, codec, data, [], "base", len(body), t)
            if n in by_len:
                for segs in by_len[n]:
                    add(name, codec, data, segs, "exh", len(body), t)
            else:
                add(name, codec, data, [1] * n, "onebyte", len(body), t)
                for cut in range(1, n):
                    add(name, codec, data, [cut, n - cut], "split", len(body), t)
                for segs in comps_random(n, rnd, nrand):
                    add(name, codec, data, segs, "rand", len(body), t)
            # small read-ahead buffers change where the buffered reader splits
            for cap in (1, 2, 7):
                add(name, codec, data, [1] * n, "cap%d" % cap, len(body), t, cap=cap)
        # every truncation point of the message itself
        for k in range(0, len(body)):
            add(name, codec, body[:k], [], "trunc", len(body), b"")
            if k > 1:
                add(name, codec, body[:k], [1] * k, "trunc", len(body), b"")
    path = os.path.join(wd, "cases.ndjson")
    vlib.write_ndjson(path, cases)
    res = os.path.join(wd, "res.ndjson")
    rc, _, err = vlib.vh(["codec", path], stdout_path=res)
    if rc != 0:
        raise vlib.ToolError("vh codec failed rc=%d: %s" % (rc, err))
    out = {}
    for r in vlib.read_ndjson(res):
        if not r.get("summary"):
            out[r["id"]] = r
    if len(out) != len(cases):
        raise vlib.ToolError("codec driver answered %d of %d" % (len(out), len(cases)))
    base = {}
    counts = {}
    for c, m in zip(cases, meta):
        r = out[c["id"]]
        counts[m["kind"]] = counts.get(m["kind"], 0) + 1
        key = (m["name"], H(m["trail"]))
        rep = {"driver": "vh codec", "case": c}
        if m["kind"] == "base":
            base[key] = r
            base[m["name"]] = r
            # the unsegmented run itself must be right: message parsed, trailing left for the tunnel
            ok = r["out"] in ("ok", "eof")
            if not ok or (m["codec"] != "rpfm_stream" and r["left"] != H(m["trail"])):
                v.report("segm/base/%s" % m["name"], {"out": r["out"], "left": r.get("left"), "expected_left": H(m["trail"])}, rep)
            continue
        if r["out"] in ("panic", "hang"):
            v.report("segm/%s/%s" % (r["out"], m["codec"]), {"name": m["name"], "segs": m["segs"][:20], "text": r.get("parsed")}, rep)
            continue
        if m["kind"] == "trunc":
            b = base[m["name"]]
            if m["codec"] == "rpfm_stream":
                # only whole frames may come out, in order
                if r["out"] == "eof" and r["parsed"] == b["parsed"][:len(r["parsed"])] and len(r["parsed"]) < len(b["parsed"]) or r["out"] == "err":
                    continue
                if r["out"] == "eof" and len(r["parsed"]) <= len(b["parsed"]) and r["parsed"] == b["parsed"][:len(r["parsed"])]:
                    continue
                v.report("segm/trunc/%s" % m["codec"], {"name": m["name"], "cut_at": len(c["hex"]) // 2, "got": r["parsed"]}, rep)
            elif r["out"] == "ok" and r["parsed"] != b["parsed"]:
                v.report("segm/trunc/%s" % m["codec"], {"name": m["name"], "cut_at": len(c["hex"]) // 2, "msglen": m["msglen"],
                                                         "fabricated": r["parsed"]}, rep)
            continue
        b = base[key]
        if r["out"] != b["out"] or r["parsed"] != b["parsed"] or r.get("left") != b.get("left") or r.get("written") != b.get("written"):
            v.report("segm/differs/%s" % m["codec"], {"name": m["name"], "segs": m["segs"][:30], "cap": c["cap"],
                                                       "got": {k: r.get(k) for k in ("out", "left")}, "want": {k: b.get(k) for k in ("out", "left")}}, rep)
    ev = vlib.evidence(PID, tier, "model_checking", {
        "states": mc.distinct, "transitions": mc.generated, "traces_validated_against_impl": len(cases),
        "samples": [{"message": meta[i]["name"], "codec": meta[i]["codec"], "segments": meta[i]["segs"][:40], "kind": meta[i]["kind"]}
                    for i in (5, len(cases) // 2, len(cases) - 3)],
        "evaluations": len(cases), "distinct_nontrivial": len({(m["name"], tuple(m["segs"]), c["cap"], c["hex"]) for c, m in zip(cases, meta)
                                                                if m["kind"] != "base"}),
        "rule": "for each generated valid message (HTTP request/response heads, SOCKS4/4a/5 request incl. auth, SOCKS replies, RPFM "
                "frames singly and back to back) with and without trailing payload: every composition of its length enumerated by TLC "
                "(GenSegm) when <= %d bytes, else one-byte-at-a-time, every 2-way split and seeded random cut sets; read-ahead capacities "
                "1,2,7,8192; every truncation point" % exh_max,
        "by_kind": counts, "messages": len(msgs), "exhaustive_lengths": lens, "exhaustive": False, "checker_cmd": mc.cmd,
    }, ["scripted AsyncRead returns exactly the chosen segment sizes; EOF after the last byte",
        "a truncated stream may still yield the complete message when only inert terminator bytes are missing (never a different one)"])
    return v.finish(ev, t0)


def replay(path):
    r = json.load(open(path))
    wd = vlib.workdir("c12_replay")
    p = os.path.join(wd, "case.ndjson")
    vlib.write_ndjson(p, [r["replay"]["case"]])
    rc, out, err = vlib.vh(["codec", p])
    print(out)
    return 0

"""Shared runner for C01 (fidelity) and C04 (end-of-stream / abort): Relay.tla model check, GenRelay scripts executed on
real proxy processes for listener x connector x io-mode pairings, traces validated by TraceRelay."""
import json, os, random, threading, time
import vlib, bb, scen

QUICK_PAIRS = [("http", "direct"), ("socks5", "direct"), ("socks4", "uphttp"), ("http", "upsocks5"), ("socks5", "upsocks4"),
               ("reverse", "direct"), ("http", "uphttp"), ("reverse", "upsocks5"), ("socks5", "upquic"), ("http", "uptls")]
ALL_PAIRS = [(p, u) for p in scen.LISTENER_PROTOS for u in scen.UPSTREAMS + scen.EXTRA_UPSTREAMS]
IO_MODES = [("splice", True, 65536), ("buffered", False, 65536), ("buffered1", False, 1)]


def gen_scripts(thorough, focus):
    cfg = {"C01": "GenRelayData.cfg", "C04": "GenRelayClose.cfg"}[focus]
    if thorough:
        cfg = cfg.replace(".cfg", "T.cfg")
    g = vlib.tlc_must_pass(vlib.run_tlc("GenRelay", cfg, workers=4, timeout=900, name="gen_relay_" + focus), cfg)
    if len(g.cases) < 20:
        raise vlib.ToolError("too few scripts")
    return g


def run_mode(wd, mode, splice, buffer, pairs, scripts, per_pair, seed, results, threads=8):
    rev_origin = bb.TcpOrigin()
    topo = scen.Topology(wd, "relay_" + mode, splice=splice, buffer=buffer, reverse_target="127.0.0.1:%d" % rev_origin.port).start()
    rnd = random.Random(seed)
    jobs = []
    for (proto, up) in pairs:
        pick = rnd.sample(scripts, min(per_pair, len(scripts)))
        for k, s in enumerate(pick):
            jobs.append((proto, up, s, "%s/%s/%s/%d" % (mode, proto, up, k)))
    rev_jobs = [j for j in jobs if j[0] == "reverse"]
    other = [j for j in jobs if j[0] != "reverse"]
    lock = threading.Lock()
    out = []

    def worker(my_jobs, origin):
        for proto, up, s, tag in my_jobs:
            try:
                r = scen.run_script(topo, proto, up, origin, s["script"], tag)
            except Exception as e:  # socket level trouble: keep as data
                r = {"tag": tag, "proto": proto, "up": up, "established": False, "exception": repr(e)}
            r["script"] = s["script"]
            r["mode"] = mode
            with lock:
                out.append(r)

    ths = []
    origins = []
    for i in range(threads):
        org = bb.TcpOrigin()
        origins.append(org)
        t = threading.Thread(target=worker, args=(other[i::threads], org))
        t.start()
        ths.append(t)
    t = threading.Thread(target=worker, args=(rev_jobs, rev_origin))
    t.start()
    ths.append(t)
    for t in ths:
        t.join()
    time.sleep(1.3)       # let the last contexts be dropped
    alive = topo.p1.alive() and topo.p2.alive()
    panic = topo.p1.panicked() or topo.p2.panicked()
    topo.stop()
    for o in origins + [rev_origin]:
        o.close()
    trace = topo.p1.trace()
    for r in out:
        cid = scen.ctx_of_source(trace, r["sport"], "%s_%s" % (r["proto"], r["up"])) if r.get("sport") else None
        r["events"] = scen.conn_events(trace, cid) if cid is not None else []
        if cid is None and r.get("scn"):
            r["unmatched"] = True
    results.extend(out)
    return alive, panic


def run_bulk(v, pid, wd, thorough):
    """C01 at scale: big transfers with paused readers, both directions at once, concurrent tunnels; judged by BulkObs.tla"""
    recs = []
    for mode, splice, buffer in IO_MODES:
        scale = 1 if buffer > 1 else 0        # bufferSize 1 moves one byte per loop iteration: keep it small there
        rev = bb.TcpOrigin()
        fakes = {"fakehttp": bb.FakeUpstream("http"), "fakesocks": bb.FakeUpstream("socks5")}
        for f in fakes.values():
            # every third reply plain; otherwise cut into segments, payload glued behind it, or both
            f.policy = lambda k: {"glue": bb.payload("glue%d" % k, 1 + 211 * (k % 7)) if k % 3 != 2 else b"", "split": k % 2 == 0}
        topo = scen.Topology(wd, "bulk_" + mode, splice=splice, buffer=buffer, reverse_target="127.0.0.1:%d" % rev.port,
                             fake={"fakehttp": ("http", fakes["fakehttp"].port), "fakesocks": ("socks", fakes["fakesocks"].port)}).start()
        jobs = []
        MB = 1 << 20
        if scale:
            jobs += [("http", "direct", 6 * MB, 0, 1.5), ("socks5", "direct", 0, 6 * MB, 1.5), ("socks4", "direct", 3 * MB, 3 * MB, 0.7),
                     ("http", "uphttp", 5 * MB, 2 * MB, 1.0), ("socks5", "upsocks5", 2 * MB, 5 * MB, 1.0)]
            if thorough:
                jobs += [("http", "upsocks4", 16 * MB, 16 * MB, 2.0), ("socks5", "uphttp", 12 * MB, 1, 2.5)]
            jobs += [(["http", "socks5", "socks4"][k % 3], "direct", 512 * 1024 + k, 300 * 1024 + k, 0.2) for k in range(8)]
            # receivers that stay slow to the very end: the proxy still holds data when the sender's FIN arrives
            # receivers that stay slow to the very end (read size, pause per read, SO_RCVBUF drawn like the search that found the
            # defect): the original splice loop lost the tail of about one such transfer in ten
            rs = random.Random(7)
            nslow = (72 if thorough else 36) if splice else 6
            for k in range(nslow):
                up = k % 4 != 3
                slow = (rs.choice([16384, 65536, 262144]), rs.choice([0.001, 0.003, 0.01, 0.03]), rs.choice([16384, 262144, 4 * MB]))
                jobs.append((["http", "socks5"][k % 2], "direct", 8 * MB if up else 0, 0 if up else 8 * MB, 0.0, slow))
        else:
            jobs += [("http", "direct", 40000, 30000, 0.3), ("socks5", "direct", 20000, 50000, 0.0)]
        out = []
        lock = threading.Lock()

        def job(k, j):
            org = bb.TcpOrigin()
            try:
                r = scen.bulk_tunnel(topo, j[0], j[1], org, "%s/bulk%d" % (mode, k), j[2], j[3], pause_reader=j[4], slow_reader=j[5] if len(j) > 5 else None)
            except Exception as e:
                r = {"tag": "%s/bulk%d" % (mode, k), "established": False, "exception": repr(e)}
            r["mode"] = mode
            with lock:
                out.append(r)
            org.close()
        ths = [threading.Thread(target=job, args=(k, j)) for k, j in enumerate(jobs)]
        for b in range(0, len(ths), 12):         # batches: the slow receivers must not starve each other
            for t in ths[b:b + 12]:
                t.start()
            for t in ths[b:b + 12]:
                t.join()
        # upstream proxies whose success reply arrives in pieces / with payload glued behind it (sequential: the policy goes by arrival order)
        for fk, (up, f) in enumerate(fakes.items()):
            for k in range(12 if scale else 4):
                proto = ["http", "socks5", "socks4"][k % 3]
                try:
                    r = scen.early_reply_tunnel(topo, proto, up, f, "%s/early%d_%d" % (mode, fk, k), n_up=3000 + 97 * k if scale else 300, n_down=5000 + 31 * k if scale else 200)
                except OSError as e:
                    r = {"tag": "%s/early%d_%d" % (mode, fk, k), "established": False, "exception": repr(e)}
                r["mode"] = mode
                out.append(r)
        time.sleep(1.3)
        topo.stop()
        rev.close()
        for f in fakes.values():
            f.close()
        trace = topo.p1.trace()
        for r in out:
            if not r.get("established"):
                raise vlib.ToolError("bulk tunnel not established: %s" % r)
            cid = scen.ctx_of_source(trace, r["sport"], "%s_%s" % (r["proto"], r["up"]))
            evs = scen.conn_events(trace, cid) if cid is not None else []
            drop = [e for e in evs if e["ev"] == "drop"]
            r["terminated"] = any(e["ev"] == "state" and e["st"] == "Terminated" for e in evs)
            r["c_bytes"] = drop[0]["c_bytes"] if drop else -1
            r["s_bytes"] = drop[0]["s_bytes"] if drop else -1
            if cid is None:
                continue
            recs.append(r)
    bp = os.path.join(wd, "bulk.ndjson")
    vlib.write_ndjson(bp, [{k: r[k] for k in ("tag", "sent", "recv", "intact", "eof", "terminated", "c_bytes", "s_bytes", "first_bad_offset")} for r in recs])
    g = vlib.tlc_must_pass(vlib.run_tlc("BulkObs", "BulkObs.cfg", workers=1, timeout=300, env_extra={"BULK": bp}), "BulkObs")
    if g.distinct < len(recs):
        raise vlib.ToolError("BulkObs did not visit every record")
    for c in g.cases:
        r = c["rec"]
        d = "c2s" if (r["recv"]["c2s"] != r["sent"]["c2s"] or not r["intact"]["c2s"] or not r["eof"]["c2s"]) else "s2c"
        kind = "lost-or-extra-bytes" if r["recv"][d] != r["sent"][d] else "corrupted" if not r["intact"][d] else "no-eof" if not r["eof"][d] else "record"
        v.report("relay/bulk/%s/%s" % (r["tag"].split("/")[0], kind), r, {"scenario": r["tag"]})
    return recs


def build_trace(results):
    lines = []
    for r in results:
        if not r.get("scn") or r.get("unmatched"):
            continue
        scn = json.loads(json.dumps(r["scn"]))
        if r["up"] != "direct" and scn["ending"]["s2c"] == "rst":
            scn["ending"]["s2c"] = "any"       # the upstream peer of P1 is P2, not the origin
        lines.append(scn)
        for e in r["events"]:
            lines.append({k: v for k, v in e.items() if k not in ("t", "idle_ms", "splice", "streams", "frames", "error")})
        if r.get("abort_seen") is not None:
            lines.append({"ev": "abort_seen", "ok": r["abort_seen"]})
        lines.append(r["obs"])
    return lines


def run_relay(pid, tier, t0):
    v = vlib.Verdicts(pid)
    wd = vlib.workdir(pid.lower())
    thorough = tier == "thorough"
    seed = vlib.seed()
    vlib.build_harness()
    mc = vlib.tlc_must_pass(vlib.run_tlc("Relay", "MCRelayT.cfg" if thorough else "MCRelay.cfg", workers=8, timeout=3000, xmx="16g"), "MCRelay")
    live = vlib.tlc_must_pass(vlib.run_tlc("Relay", "MCRelayLive.cfg", workers=4, timeout=900, name="MCRelayLive"), "MCRelayLive")
    g = gen_scripts(thorough, pid)
    scripts = g.cases
    pairs = ALL_PAIRS if thorough else QUICK_PAIRS
    per_pair = 20 if thorough else 12
    results = []
    for mode, splice, buffer in IO_MODES:
        alive, panic = run_mode(wd, mode, splice, buffer, pairs, scripts, per_pair, seed, results)
        if panic or not alive:
            v.report("relay/proxy-died/%s" % mode, str(panic)[:300], {"mode": mode})
    n_est = sum(1 for r in results if r.get("established") and r.get("scn"))
    if n_est < len(results) * 0.9:
        bad = [r for r in results if not (r.get("established") and r.get("scn"))][:3]
        raise vlib.ToolError("only %d of %d tunnels were established: %s" % (n_est, len(results), json.dumps(bad)[:600]))
    for r in results:
        if not r.get("scn"):
            continue
        rep = {"scenario": {k: r[k] for k in ("tag", "proto", "up", "mode", "script")}, "obs": r["obs"], "events": r["events"][:40]}
        for d in ("c2s", "s2c"):
            if not r["intact"][d]:
                v.report("relay/foreign-or-reordered-bytes/%s" % d, {"tag": r["tag"], "first_bytes": r["foreign"][d]}, rep)
    # trace validation, one TLC run per io mode
    accepted = 0
    nev = 0
    for mode, _, _ in IO_MODES:
        rs_all = [r for r in results if r.get("mode") == mode and r.get("scn") and not r.get("unmatched")]
        # in chunks: a rejected (or too slow) chunk is taken apart tunnel by tunnel, the others are not
        chunks = [rs_all[i:i + 120] for i in range(0, len(rs_all), 120)]
        todo = []
        for ci, rs in enumerate(chunks):
            lines = build_trace(rs)
            nev += len(lines)
            tp = os.path.join(wd, "trace_%s_%d.ndjson" % (mode, ci))
            vlib.write_ndjson(tp, lines)
            try:
                acc, info, tr = vlib.validate_trace("TraceRelay", "TraceRelay.cfg", tp, timeout=900, name="trace_relay", dfs=False)
            except vlib.ToolError:
                acc = False
            if acc:
                accepted += len(rs)
            else:
                todo += rs
        # find the offending tunnel(s): validate each tunnel separately
        for r in todo:
            one = build_trace([r])
            op = os.path.join(wd, "one.ndjson")
            vlib.write_ndjson(op, one)
            a1, i1, _ = vlib.validate_trace("TraceRelay", "TraceRelay.cfg", op, timeout=300, name="trace_relay_one", dfs=False)
            if a1:
                accepted += 1
                continue
            keep = os.path.join(vlib.EVID, "replay", "trace_%s_%s.ndjson" % (pid, r["tag"].replace("/", "_")))
            os.makedirs(os.path.dirname(keep), exist_ok=True)
            vlib.write_ndjson(keep, one)
            m = info_first(i1)
            v.report("relay/trace-rejected/%s/%s" % (mode, m), {"tag": r["tag"], "script": r["script"], "info": i1[:400], "obs": r["obs"]},
                     {"trace": keep, "cmd": "cd spec && TRACE=%s tlc -workers 1 -config TraceRelay.cfg TraceRelay.tla" % keep})
    bulk = run_bulk(v, pid, wd, thorough) if pid == "C01" else []
    est = [r for r in results if r.get("scn") and not r.get("unmatched")]
    ev = vlib.evidence(pid, tier, "model_checking", {
        "states": mc.distinct + live.distinct, "transitions": mc.generated + live.generated,
        "traces_validated_against_impl": len(est),
        "samples": [{"scenario": est[i]["tag"], "script": est[i]["script"], "proxy_events": [dict(e) for e in est[i]["events"][:12]],
                     "observed": est[i]["obs"]} for i in (0, len(est) // 2)],
        "evaluations": len(est), "distinct_nontrivial": len({json.dumps(r["script"]) + r["proto"] + r["up"] + r["mode"] for r in est}),
        "rule": "Relay.tla checked exhaustively (MCRelay: 2 directions x 3 tokens, early data, FIN/RST, idle; liveness under fairness in "
                "MCRelayLive); GenRelay enumerates environment scripts (who writes how much when, early data, FIN/RST order); a seeded "
                "sample of them runs on real proxy processes for each listener x upstream pairing and each io mode (splice, buffered, "
                "buffered with bufferSize 1), 8 tunnels concurrently; each tunnel's hook events + driver observations are one TraceRelay trace",
        "tunnels": len(results), "accepted": accepted, "not_matched_to_a_context(source port reused)": sum(1 for r in results if r.get("unmatched")), "trace_events": nev, "pairs": ["%s>%s" % p for p in pairs],
        "io_modes": [m[0] for m in IO_MODES], "bulk_tunnels": len(bulk), "bulk_bytes": sum(r["sent"]["c2s"] + r["sent"]["s2c"] for r in bulk), "scripts_available": len(scripts), "exhaustive": False, "checker_cmd": mc.cmd,
    }, ["loopback never drops or reorders", "one token = one byte in the trace-validated micro scenarios",
        "second hops over QUIC streams and over TLS are included (upquic, uptls); TLS-wrapped listeners are not"])
    return v.finish(ev, t0)


def info_first(info):
    import re
    m = re.search(r'ev\\\\":\\\\"(\w+)', info) or re.search(r'"ev\\":\\"(\w+)', info) or re.search(r'ev[^a-z]+(\w+)', info)
    return m.group(1) if m else "?"

"""C06 - the client is told 'established' iff the upstream is; failures get one complete reply. TLA+: Life.tla, TraceLife."""
from checks.life_run import run_c06


def run(tier, t0):
    return run_c06("C06", tier, t0)


def replay(path):
    import json
    print(json.dumps(json.load(open(path))["replay"])[:3000])
    return 0

"""Shared runner for C06 (reply iff established / one complete failure reply) and C16 (accounting):
Life.tla model check + scenarios on real proxy processes validated by TraceLife."""
import json, os, random, socket, struct, threading, time
import vlib, bb, scen


def parse_reply_bytes(proto, c, rep):
    """wait for end of stream and judge well-formedness of everything the client received as reply"""
    c.recv_until_eof(timeout=2.5)
    extra = bytes(c.rx)
    closed = bool(c.eof or c.err is not None)
    if not rep.get("complete"):
        raw = rep.get("raw", b"")
        return {"kind": "none" if not raw and not extra else "fail", "wellformed": not raw and not extra, "closed": closed, "raw": (raw + extra)[:80].hex()}
    if proto == "http":
        ok = rep["status"] == 200
        body_ok = True
        if not ok:
            cl = rep["headers"].get("content-length")
            body_ok = (cl is None and extra == b"") or (cl is not None and cl.isdigit() and len(extra) == int(cl))
        return {"kind": "ok" if ok else "fail", "wellformed": rep["status"] > 0 and (ok or body_ok), "closed": closed,
                "status": rep["status"], "content_length": rep["headers"].get("content-length"), "body_bytes": len(extra) if not ok else None}
    if proto == "socks5":
        if rep.get("refused_method"):
            return {"kind": "fail", "wellformed": extra == b"", "closed": closed}
        ok = rep.get("rep") == 0
        return {"kind": "ok" if ok else "fail", "wellformed": rep.get("ver") == 5 and (ok or extra == b""), "closed": closed, "rep": rep.get("rep")}
    if proto == "socks4":
        ok = rep.get("cd") == 90
        return {"kind": "ok" if ok else "fail", "wellformed": rep.get("vn") == 0 and rep.get("cd") in (90, 91, 92, 93) and (ok or extra == b""), "closed": closed}
    return {"kind": "ok", "wellformed": True, "closed": closed}


def c06_scenarios(topo, origin, blocked_origin):
    """(name, proto, up, callable -> (conn, rep), expected kind, must_not_reach_upstream)"""
    T = ("ipv4", "127.0.0.1", origin.port)
    closed_port = bb.free_port()
    TC = ("ipv4", "127.0.0.1", closed_port)
    TB = ("ipv4", "127.0.0.1", blocked_origin.port)
    out = []
    for proto in ("http", "socks5", "socks4"):
        for up in ("direct", "uphttp", "upsocks5", "upsocks4"):
            out.append(("ok", proto, up, lambda p=proto, u=up: topo.open(p, u, T), "ok", False))
            out.append(("refused", proto, up, lambda p=proto, u=up: topo.open(p, u, TC), "fail", False))
        for up in ("uphttp", "upsocks5", "upsocks4"):
            out.append(("upstream-says-no", proto, up, lambda p=proto, u=up: topo.open(p, u, TB), "fail", True))
        out.append(("deny", proto, "deny", lambda p=proto: topo.open(p, "deny", T), "fail", True))
        out.append(("norule", proto, "none", lambda p=proto: topo.open(p, "none", T), "fail", True))
        out.append(("domain-unresolvable", proto, "direct", lambda p=proto: topo.open(p, "direct", ("domain", "no-such-host.invalid", 80)) if p != "socks4"
                    else topo.open(p, "direct", ("domain", "no-such-host.invalid", 80)), "fail", False))
    P5 = lambda up: topo.ports[("socks5", up)]
    out.append(("udp-to-tcp-only", "socks5", "lb", lambda: bb.socks5_connect(P5("lb"), ("ipv4", "0.0.0.0", 0), cmd=3), "fail", True))
    out.append(("bind", "socks5", "direct", lambda: bb.socks5_connect(P5("direct"), T, cmd=2), "fail", True))
    out.append(("bind", "socks4", "direct", lambda: bb.socks4_connect(topo.ports[("socks4", "direct")], T, cmd=2), "fail", True))
    out.append(("unknown-cmd", "socks5", "direct", lambda: bb.socks5_connect(P5("direct"), T, cmd=9), "fail", True))
    out.append(("bad-password", "socks5", "auth", lambda: bb.socks5_connect(P5("auth"), T, methods=(2,), auth=(b"alice", b"wrong")), "fail", True))
    out.append(("unknown-user", "socks5", "auth", lambda: bb.socks5_connect(P5("auth"), T, methods=(0, 2), auth=(b"bob", b"secret")), "fail", True))
    out.append(("no-acceptable-method", "socks5", "auth", lambda: bb.socks5_connect(P5("auth"), T, methods=(0,)), "fail", True))
    out.append(("good-password", "socks5", "auth", lambda: bb.socks5_connect(P5("auth"), T, methods=(0, 2), auth=(b"alice", b"secret")), "ok", False))
    out.append(("socks4-bad-id", "socks4", "auth", lambda: bb.socks4_connect(topo.ports[("socks4", "auth")], T, userid=b"mallory"), "fail", True))
    out.append(("http-get", "http", "direct", lambda: http_raw(topo.ports[("http", "direct")], b"GET http://127.0.0.1/ HTTP/1.1\r\nHost: x\r\n\r\n"), "fail", True))
    out.append(("http-bad-protocol", "http", "direct",
                lambda: bb.http_connect(topo.ports[("http", "direct")], T, extra_headers="Proxy-Protocol: sctp\r\n"), "fail", True))
    return out


def http_raw(port, data):
    s = socket.create_connection(("127.0.0.1", port), timeout=5)
    c = bb.Conn(s)
    c.send(data)
    return c, bb.read_http_reply(c)


def gather(topo, obs, hist_size, extra_events=None):
    """build the TraceLife trace: proxy events of P1 + driver observations placed after the proxy events they depend on"""
    trace = topo.p1.trace()
    ids = [e["id"] for e in trace if e["ev"] == "ctx_new"]
    n = (max(ids) + 1) if ids else 0
    lines = [{"ev": "hdr", "n": n, "hist": hist_size}]
    for e in trace:
        if e["ev"] in ("ctx_new", "state", "connect_end", "drop", "gc"):
            lines.append({k: v for k, v in e.items() if k in ("ev", "id", "st", "ok", "history_ids", "alive_len")})
        elif e["ev"] == "api_end" and extra_events and extra_events.get(e["seq"]):
            lines.append(extra_events[e["seq"]])
    by_port = {}
    for e in trace:
        if e["ev"] == "ctx_new":
            by_port[int(e["source"].rsplit(":", 1)[1])] = e["id"]
    for o in obs:
        cid = by_port.get(o.pop("sport", None))
        if cid is None:
            o["id"] = -1
        else:
            o["id"] = cid
        lines.append(o)
    return lines, by_port, trace


def run_c06(pid, tier, t0):
    v = vlib.Verdicts(pid)
    wd = vlib.workdir(pid.lower())
    thorough = tier == "thorough"
    vlib.build_harness()
    mcs = [vlib.tlc_must_pass(vlib.run_tlc("Life", cfg, workers=8, timeout=1200, name=cfg[:-4]), cfg) for cfg in ("MCLife.cfg", "MCLife0.cfg", "MCLife2.cfg")]
    traces_ok = 0
    total = 0
    samples = []
    modes = [("splice", True), ("buffered", False)] if thorough else [("splice", True)]
    for mode, splice in modes:
        origin = bb.TcpOrigin()
        blocked = bb.TcpOrigin()
        topo = scen.Topology(wd, "c06_" + mode, splice=splice, special=True, p2_deny_port=blocked.port, history=1000).start()
        obs = []
        for name, proto, up, fn, want, must_not in c06_scenarios(topo, origin, blocked):
            n_before = origin.accepted + blocked.accepted
            try:
                c, rep = fn()
            except OSError as e:
                raise vlib.ToolError("scenario %s/%s/%s could not connect: %r" % (name, proto, up, e))
            sport = c.s.getsockname()[1]
            est = bb.established(rep)
            upstream_seen = False
            if est:
                o = origin.accept(timeout=2.0)
                upstream_seen = o is not None
                # finish the tunnel gracefully
                c.fin()
                if o:
                    o.recv_until_eof(1.5)
                    o.fin()
                    o.close()
                c.recv_until_eof(1.5)
                r = {"kind": "ok", "wellformed": True, "closed": True}
            else:
                r = parse_reply_bytes(proto, c, rep)
                time.sleep(0.05)
                upstream_seen = (origin.accepted + blocked.accepted) > n_before
                while not origin.q.empty():
                    origin.q.get().close()
                while not blocked.q.empty():
                    blocked.q.get().close()
            c.close()
            total += 1
            obs.append({"ev": "obs_reply", "sport": sport, "scenario": "%s/%s/%s" % (name, proto, up), "kind": r["kind"], "wellformed": r["wellformed"],
                        "closed": r["closed"], "upstream_seen": upstream_seen, "must_not_reach_upstream": must_not, "expected_kind": want,
                        "detail": {k: r[k] for k in r if k not in ("kind", "wellformed", "closed")}})
        time.sleep(1.4)
        alive = topo.p1.alive()
        panic = topo.p1.panicked()
        topo.stop()
        origin.close()
        blocked.close()
        if panic or not alive:
            v.report("life/proxy-died", str(panic)[:300], {"mode": mode})
        lines, by_port, trace = gather(topo, obs, 1000)
        # expectation of the scenario itself (the spec allows ok or fail; the scenario knows which one it must be)
        for o in obs:
            if o["kind"] != o["expected_kind"]:
                v.report("life/wrong-outcome/%s" % o["scenario"], o, {"scenario": o["scenario"]})
        validate(v, pid, wd, mode, lines, obs)
        samples.append({"mode": mode, "trace_prefix": lines[:12], "reply_observations": obs[:3]})
        traces_ok += 1
    ev = vlib.evidence(pid, tier, "model_checking", {
        "states": sum(m.distinct for m in mcs), "transitions": sum(m.generated for m in mcs), "traces_validated_against_impl": traces_ok,
        "samples": samples[:2], "evaluations": total, "distinct_nontrivial": total,
        "rule": "Life.tla checked for 3 connections x every outcome x history size 0/1/2; on real processes every listener protocol x outcome "
                "class (reachable, refused, unresolvable, upstream proxy says no, deny, no rule, UDP to a TCP-only upstream, BIND, unknown "
                "command, wrong password, unknown user, no acceptable method, SOCKS4 id, non-CONNECT method, bad Proxy-Protocol) x upstream "
                "kind; the client's bytes until end of stream are parsed strictly; the proxy's lifecycle events + these observations are one "
                "TraceLife trace per io mode",
        "scenarios": total, "exhaustive": False, "checker_cmd": mcs[0].cmd,
    }, ["upstream kinds: direct, http, socks5, socks4 (second proxy process)", "QUIC / TLS listeners are exercised by C07 / C19"])
    return v.finish(ev, t0)


def validate(v, pid, wd, tag, lines, obs):
    tp = os.path.join(wd, "life_%s.ndjson" % tag)
    vlib.write_ndjson(tp, lines)
    acc, info, tr = vlib.validate_trace("TraceLife", "TraceLife.cfg", tp, timeout=1200, name="trace_life", dfs=False)
    if acc:
        return True
    keep = os.path.join(vlib.EVID, "replay", "trace_%s_%s.ndjson" % (pid, tag))
    os.makedirs(os.path.dirname(keep), exist_ok=True)
    vlib.write_ndjson(keep, lines)
    # classify by the first unmatched record
    import re
    m = re.search(r'first unmatched", "(.*)">>', info)
    first = {}
    if m:
        try:
            first = json.loads(m.group(1).replace('\\"', '"'))
        except Exception:
            first = {}
    key = "life/trace-rejected/%s" % first.get("ev", "?")
    if first.get("ev") == "obs_reply":
        key += "/" + first.get("scenario", "?")
    elif first.get("ev") == "drop":
        key += "/no-terminal-state"
    v.report(key, {"first_unmatched": first, "info": info[:300]},
             {"trace": keep, "cmd": "cd spec && TRACE=%s tlc -workers 1 -config TraceLife.cfg TraceLife.tla" % keep})
    return False

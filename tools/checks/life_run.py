"""Shared runner for C06 (reply iff established / one complete failure reply) and C16 (accounting):
Life.tla model check + scenarios on real proxy processes validated by TraceLife."""
import json, os, random, socket, struct, threading, time
import vlib, bb, scen


UDP_IDLE_S = 3


def parse_reply_bytes(proto, c, rep):
    """wait for end of stream and judge well-formedness of everything the client received as reply"""
    c.recv_until_eof(timeout=2.5)
    extra = bytes(c.rx)
    closed = bool(c.eof or c.err is not None)
    if not rep.get("complete"):
        raw = rep.get("raw", b"")
        return {"kind": "none" if not raw and not extra else "fail", "wellformed": not raw and not extra, "closed": closed, "raw": (raw + extra)[:80].hex()}
    if proto == "http":
        ok = rep["status"] == 200
        body_ok = True
        if not ok:
            cl = rep["headers"].get("content-length")
            body_ok = (cl is None and extra == b"") or (cl is not None and cl.isdigit() and len(extra) == int(cl))
        return {"kind": "ok" if ok else "fail", "wellformed": rep["status"] > 0 and (ok or body_ok), "closed": closed,
                "status": rep["status"], "content_length": rep["headers"].get("content-length"), "body_bytes": len(extra) if not ok else None}
    if proto == "socks5":
        if rep.get("refused_method"):
            return {"kind": "fail", "wellformed": extra == b"", "closed": closed}
        ok = rep.get("rep") == 0
        return {"kind": "ok" if ok else "fail", "wellformed": rep.get("ver") == 5 and (ok or extra == b""), "closed": closed, "rep": rep.get("rep")}
    if proto == "socks4":
        ok = rep.get("cd") == 90
        return {"kind": "ok" if ok else "fail", "wellformed": rep.get("vn") == 0 and rep.get("cd") in (90, 91, 92, 93) and (ok or extra == b""), "closed": closed}
    return {"kind": "ok", "wellformed": True, "closed": closed}


def c06_scenarios(topo, origin, blocked_origin, fakes=None):
    """(name, proto, up, callable -> (conn, rep), expected kind, must_not_reach_upstream)"""
    T = ("ipv4", "127.0.0.1", origin.port)
    closed_port = bb.free_port()
    TC = ("ipv4", "127.0.0.1", closed_port)
    TB = ("ipv4", "127.0.0.1", blocked_origin.port)
    out = []
    for proto in ("http", "socks5", "socks4"):
        for up in ("direct", "uphttp", "upsocks5", "upsocks4", "uphttp6", "upquic"):
            out.append(("ok", proto, up, lambda p=proto, u=up: topo.open(p, u, T), "ok", False))
            out.append(("refused", proto, up, lambda p=proto, u=up: topo.open(p, u, TC), "fail", False))
        for up in ("uphttp", "upsocks5", "upsocks4", "uphttp6", "upquic"):
            out.append(("upstream-says-no", proto, up, lambda p=proto, u=up: topo.open(p, u, TB), "fail", True))
        # through a load balancer: its member's failure is the request's failure
        out.append(("ok-via-lb", proto, "lb", lambda p=proto: topo.open(p, "lb", T), "ok", False))
        out.append(("refused-via-lb", proto, "lb", lambda p=proto: topo.open(p, "lb", TC), "fail", False))
        out.append(("deny", proto, "deny", lambda p=proto: topo.open(p, "deny", T), "fail", True))
        out.append(("norule", proto, "none", lambda p=proto: topo.open(p, "none", T), "fail", True))
        out.append(("domain-unresolvable", proto, "direct", lambda p=proto: topo.open(p, "direct", ("domain", "no-such-host.invalid", 80)) if p != "socks4"
                    else topo.open(p, "direct", ("domain", "no-such-host.invalid", 80)), "fail", False))
    # foreign upstream proxies that refuse with every kind of answer (a second redproxy only ever says "general failure" / 503)
    if fakes:
        def via(fake, pol, p, up):
            fake.policy = lambda n, pol=pol: pol
            return topo.open(p, up, T)
        for proto in ("http", "socks5", "socks4"):
            for code in (2, 3, 5, 8):
                out.append(("upstream-socks5-code-%d" % code, proto, "fakesocks", lambda p=proto, c=code: via(fakes["fakesocks"], {"refuse": c}, p, "fakesocks"), "fail", False))
            for code in (92, 93):
                out.append(("upstream-socks4-code-%d" % code, proto, "fakesocks4", lambda p=proto, c=code: via(fakes["fakesocks4"], {"refuse": c}, p, "fakesocks4"), "fail", False))
            for code in (403, 407, 502, 301, 100):
                out.append(("upstream-http-status-%d" % code, proto, "fakehttp", lambda p=proto, c=code: via(fakes["fakehttp"], {"refuse": c}, p, "fakehttp"), "fail", False))
            # positive controls through the same scripted upstreams
            for up in ("fakesocks", "fakesocks4", "fakehttp"):
                out.append(("upstream-scripted-ok", proto, up, lambda p=proto, u=up: via(fakes[u], {}, p, u), "ok", False))
    P5 = lambda up: topo.ports[("socks5", up)]
    out.append(("udp-to-tcp-only", "socks5", "lb", lambda: bb.socks5_connect(P5("lb"), ("ipv4", "0.0.0.0", 0), cmd=3), "fail", True))
    # a UDP association keeps its control connection until it ends (here: by the udp idle timeout): nothing follows the success reply on it
    for up in ("direct", "upsocks5"):
        out.append(("udp-associate-idle", "socks5", up, lambda up=up: bb.socks5_connect(P5(up), ("ipv4", "0.0.0.0", 0), cmd=3), "ok", False))
    # an association the listener cannot set up (the client names an address of the other family): a failed request like any other
    out.append(("udp-associate-other-family", "socks5", "enforce", lambda: bb.socks5_connect(P5("enforce"), ("ipv6", "::1", 5000), cmd=3), "fail", True))
    out.append(("bind", "socks5", "direct", lambda: bb.socks5_connect(P5("direct"), T, cmd=2), "fail", True))
    out.append(("bind", "socks4", "direct", lambda: bb.socks4_connect(topo.ports[("socks4", "direct")], T, cmd=2), "fail", True))
    out.append(("unknown-cmd", "socks5", "direct", lambda: bb.socks5_connect(P5("direct"), T, cmd=9), "fail", True))
    out.append(("bad-password", "socks5", "auth", lambda: bb.socks5_connect(P5("auth"), T, methods=(2,), auth=(b"alice", b"wrong")), "fail", True))
    out.append(("unknown-user", "socks5", "auth", lambda: bb.socks5_connect(P5("auth"), T, methods=(0, 2), auth=(b"bob", b"secret")), "fail", True))
    out.append(("no-acceptable-method", "socks5", "auth", lambda: bb.socks5_connect(P5("auth"), T, methods=(0,)), "fail", True))
    out.append(("good-password", "socks5", "auth", lambda: bb.socks5_connect(P5("auth"), T, methods=(0, 2), auth=(b"alice", b"secret")), "ok", False))
    out.append(("socks4-bad-id", "socks4", "auth", lambda: bb.socks4_connect(topo.ports[("socks4", "auth")], T, userid=b"mallory"), "fail", True))
    out.append(("http-get", "http", "direct", lambda: http_raw(topo.ports[("http", "direct")], b"GET http://127.0.0.1/ HTTP/1.1\r\nHost: x\r\n\r\n"), "fail", True))
    # UDP over an HTTP listener is only offered on the inline channel: any other Proxy-Channel is refused - with a reply
    for ch in ("quic", "datagram"):
        out.append(("http-udp-channel-%s" % (ch or "empty"), "http", "direct",
                    lambda ch=ch: bb.http_connect(topo.ports[("http", "direct")], T, extra_headers="Proxy-Protocol: udp\r\nProxy-Channel: %s\r\n" % ch), "fail", True))
    out.append(("http-bad-protocol", "http", "direct",
                lambda: bb.http_connect(topo.ports[("http", "direct")], T, extra_headers="Proxy-Protocol: sctp\r\n"), "fail", True))
    return out


def http_raw(port, data):
    s = socket.create_connection(("127.0.0.1", port), timeout=5)
    c = bb.Conn(s)
    c.send(data)
    return c, bb.read_http_reply(c)


def gather(topo, obs, hist_size, extra_events=None):
    """build the TraceLife trace: proxy events of P1 + driver observations placed after the proxy events they depend on"""
    trace = topo.p1.trace()
    ids = [e["id"] for e in trace if e["ev"] == "ctx_new"]
    n = (max(ids) + 1) if ids else 0
    lines = [{"ev": "hdr", "n": n, "hist": hist_size}]
    for e in trace:
        if e["ev"] in ("ctx_new", "state", "connect_end", "drop", "gc_take", "gc"):
            lines.append({k: v for k, v in e.items() if k in ("ev", "id", "st", "ok", "history_ids", "alive_len", "n")})
        elif e["ev"] == "api_end" and extra_events and extra_events.get(e["seq"]):
            lines.append(extra_events[e["seq"]])
    # a client source port may be used by more than one connection of a run: the scenarios run one after the other, so the
    # k-th observation with a port belongs to the k-th context created with it
    by_port = {}
    for e in trace:
        if e["ev"] == "ctx_new":
            by_port.setdefault(int(e["source"].rsplit(":", 1)[1]), []).append(e["id"])
    for o in obs:
        q = by_port.get(o.pop("sport", None))
        o["id"] = q.pop(0) if q else -1
    # an observation about a connection goes right behind that connection's last lifecycle event (its drop): the search
    # then settles what kind of failure it was at once instead of carrying every possibility to the end of the trace
    by_id = {}
    for o in obs:
        by_id.setdefault(o["id"], []).append(o)
    placed = []
    for ln in lines:
        placed.append(ln)
        if ln.get("ev") == "drop" and ln.get("id") in by_id:
            placed.extend(by_id.pop(ln["id"]))
    for rest in by_id.values():
        placed.extend(rest)
    lines = placed
    return lines, by_port, trace


def run_c06(pid, tier, t0):
    v = vlib.Verdicts(pid)
    wd = vlib.workdir(pid.lower())
    thorough = tier == "thorough"
    vlib.build_harness()
    mcs = [vlib.tlc_must_pass(vlib.run_tlc("Life", cfg, workers=8, timeout=1200, name=cfg[:-4]), cfg) for cfg in ("MCLife.cfg", "MCLife0.cfg", "MCLife2.cfg")]
    traces_ok = 0
    total = 0
    samples = []
    modes = [("splice", True), ("buffered", False)] if thorough else [("splice", True)]
    for mode, splice in modes:
        origin = bb.TcpOrigin()
        blocked = bb.TcpOrigin()
        fakes = {"fakehttp": bb.FakeUpstream("http"), "fakesocks": bb.FakeUpstream("socks5"), "fakesocks4": bb.FakeUpstream("socks4")}
        topo = scen.Topology(wd, "c06_" + mode, splice=splice, special=True, p2_deny_port=blocked.port, history=1000, udp=UDP_IDLE_S,
                             fake={"fakehttp": ("http", fakes["fakehttp"].port), "fakesocks": ("socks", fakes["fakesocks"].port),
                                   "fakesocks4": ("socks4", fakes["fakesocks4"].port)}).start()
        obs = []
        for name, proto, up, fn, want, must_not in c06_scenarios(topo, origin, blocked, fakes):
            n_before = origin.accepted + blocked.accepted
            try:
                c, rep = fn()
            except OSError as e:
                raise vlib.ToolError("scenario %s/%s/%s could not connect: %r" % (name, proto, up, e))
            sport = c.s.getsockname()[1]
            est = bb.established(rep)
            upstream_seen = False
            if est and name == "udp-associate-idle":
                # the association is real: one datagram through it reaches a UDP origin
                uo = bb.UdpOrigin()
                us = socket.socket(socket.AF_INET, socket.SOCK_DGRAM)
                try:
                    for _ in range(12):       # patient: a loaded machine must not turn into "upstream never seen"
                        us.sendto(b"\x00\x00\x00\x01" + socket.inet_aton("127.0.0.1") + struct.pack(">H", uo.port) + b"hello", ("127.0.0.1", rep["bind_port"]))
                        time.sleep(0.5)
                        if uo.got:
                            break
                    upstream_seen = bool(uo.got)
                finally:
                    us.close()
                    uo.close()
                c.recv_until_eof(timeout=UDP_IDLE_S + 5.0)
                after = bytes(c.rx)
                r = {"kind": "ok", "wellformed": after == b"", "closed": bool(c.eof or c.err is not None), "after_success_reply": after[:40].hex()}
                if after:
                    v.report("life/reply-after-established/%s/%s" % (proto, up), r, {"scenario": "%s/%s/%s" % (name, proto, up)})
            elif est:
                o = (fakes[up] if up in fakes else origin).accept(timeout=2.0)
                upstream_seen = o is not None
                # finish the tunnel gracefully
                c.fin()
                if o:
                    o.recv_until_eof(1.5)
                    o.fin()
                    o.close()
                c.recv_until_eof(1.5)
                r = {"kind": "ok", "wellformed": True, "closed": True}
            else:
                r = parse_reply_bytes(proto, c, rep)
                time.sleep(0.05)
                upstream_seen = (origin.accepted + blocked.accepted) > n_before
                while not origin.q.empty():
                    origin.q.get().close()
                while not blocked.q.empty():
                    blocked.q.get().close()
            c.close()
            total += 1
            obs.append({"ev": "obs_reply", "sport": sport, "scenario": "%s/%s/%s" % (name, proto, up), "kind": r["kind"], "wellformed": r["wellformed"],
                        "closed": r["closed"], "upstream_seen": upstream_seen, "must_not_reach_upstream": must_not, "expected_kind": want,
                        "detail": {k: r[k] for k in r if k not in ("kind", "wellformed", "closed")}})
        time.sleep(1.4)
        alive = topo.p1.alive()
        panic = topo.p1.panicked()
        topo.stop()
        origin.close()
        blocked.close()
        for f in fakes.values():
            f.close()
        if panic or not alive:
            v.report("life/proxy-died", str(panic)[:300], {"mode": mode})
        lines, by_port, trace = gather(topo, obs, 1000)
        # expectation of the scenario itself (the spec allows ok or fail; the scenario knows which one it must be)
        for o in obs:
            if o["kind"] != o["expected_kind"]:
                v.report("life/wrong-outcome/%s" % o["scenario"], o, {"scenario": o["scenario"]})
        validate(v, pid, wd, mode, lines, obs)
        samples.append({"mode": mode, "trace_prefix": lines[:12], "reply_observations": obs[:3]})
        traces_ok += 1
    ev = vlib.evidence(pid, tier, "model_checking", {
        "states": sum(m.distinct for m in mcs), "transitions": sum(m.generated for m in mcs), "traces_validated_against_impl": traces_ok,
        "samples": samples[:2], "evaluations": total, "distinct_nontrivial": total,
        "rule": "Life.tla checked for 3 connections x every outcome x history size 0/1/2; on real processes every listener protocol x outcome "
                "class (reachable, refused, unresolvable, upstream proxy says no, deny, no rule, UDP to a TCP-only upstream, BIND, unknown "
                "command, wrong password, unknown user, no acceptable method, SOCKS4 id, non-CONNECT method, bad Proxy-Protocol, through a balancer, "
                "a UDP association watched until its idle timeout ends it) x upstream "
                "kind; the client's bytes until end of stream are parsed strictly; the proxy's lifecycle events + these observations are one "
                "TraceLife trace per io mode",
        "scenarios": total, "exhaustive": False, "checker_cmd": mcs[0].cmd,
    }, ["upstream kinds: direct, http, socks5, socks4 (second proxy process)", "QUIC / TLS listeners are exercised by C07 / C19"])
    return v.finish(ev, t0)


def validate(v, pid, wd, tag, lines, obs, cfg="TraceLife.cfg"):
    tp = os.path.join(wd, "life_%s.ndjson" % tag)
    vlib.write_ndjson(tp, lines)
    acc, info, tr = vlib.validate_trace("TraceLife", cfg, tp, timeout=1200, name="trace_life", dfs=False)
    if acc:
        return True
    keep = os.path.join(vlib.EVID, "replay", "trace_%s_%s.ndjson" % (pid, tag))
    os.makedirs(os.path.dirname(keep), exist_ok=True)
    vlib.write_ndjson(keep, lines)
    # classify by the first unmatched record
    import re
    m = re.search(r'first unmatched", "(.*)">>', info)
    first = {}
    if m:
        try:
            first = json.loads(m.group(1).replace('\\"', '"'))
        except Exception:
            first = {}
    key = "life/trace-rejected/%s" % first.get("ev", "?")
    if first.get("ev") == "obs_reply":
        key += "/" + first.get("scenario", "?")
    elif first.get("ev") == "drop":
        key += "/no-terminal-state"
    v.report(key, {"first_unmatched": first, "info": info[:300]},
             {"trace": keep, "cmd": "cd spec && TRACE=%s tlc -workers 1 -config TraceLife.cfg TraceLife.tla" % keep})
    return False


# ---------------------------------------------------------------------------------------------
# C16

def c16_burst(topo, origins, n, rnd, open_keep=2):
    """run n mixed connections from 8 threads; returns list of per-connection expectations"""
    closed_port = bb.free_port()
    kinds = ["ok", "ok", "ok-early", "deny", "norule", "refused", "badauth", "garbage", "abort", "nofeature", "ok-up"]
    if getattr(topo, "fakes", None):
        kinds.append("ok-up-early")        # the upstream proxy's reply comes in pieces and / or with payload glued behind it
    plan = [kinds[i % len(kinds)] for i in range(n)]
    rnd.shuffle(plan)
    out = []
    lock = threading.Lock()
    keep = []

    def one(i, kind, origin):
        T = ("ipv4", "127.0.0.1", origin.port)
        proto = ["http", "socks5", "socks4"][i % 3]
        exp = {"kind": kind, "proto": proto, "target": "127.0.0.1:%d" % origin.port, "c_bytes": None, "s_bytes": None}
        try:
            if kind in ("ok", "ok-early", "abort", "ok-up", "ok-up-early"):
                up = "direct" if kind not in ("ok-up", "ok-up-early") else ["uphttp", "upsocks5", "upsocks4"][i % 3]
                if kind == "ok-up-early":
                    up = ["fakehttp", "fakesocks"][i % 2]
                early = bb.payload("e%d" % i, 7) if kind == "ok-early" else b""
                c, rep = topo.open(proto, up, T, early=early)
                exp.update(listener="%s_%s" % (proto, up), connector=up)
                if not bb.established(rep):
                    exp["unexpected"] = "not established"
                    exp["sport"] = c.s.getsockname()[1]
                    c.close()
                    return exp
                o = (topo.fakes[up] if kind == "ok-up-early" else origin).accept(10.0)
                glue = getattr(o, "glue", b"") if kind == "ok-up-early" else b""
                up_bytes = bb.payload("c%d" % i, 100 + 37 * i)
                down_bytes = bb.payload("s%d" % i, 50 + 11 * i)
                c.send(up_bytes)
                o.recv_some(timeout=2.0, want=len(early) + len(up_bytes))
                o.send(down_bytes)
                c.recv_some(timeout=2.0, want=len(glue) + len(down_bytes))
                if kind == "ok-up-early" and bytes(c.rx) != glue + down_bytes:
                    exp["unexpected"] = "client received %d bytes, expected %d (payload glued to the upstream's reply + later data)" % (len(c.rx), len(glue) + len(down_bytes))
                down_bytes = glue + down_bytes
                exp["sport"] = c.s.getsockname()[1]
                if kind == "abort":
                    c.rst()
                    o.recv_until_eof(2.0)
                    o.close()
                    exp["error"] = True
                else:
                    exp["c_bytes"] = len(early) + len(up_bytes)
                    exp["s_bytes"] = len(down_bytes)
                    with lock:
                        hold = len(keep) < open_keep and kind == "ok"
                        if hold:
                            keep.append((c, o, exp))
                    if not hold:
                        c.fin(); o.recv_until_eof(2.0); o.fin(); c.recv_until_eof(2.0); c.close(); o.close()
                    exp["held_open"] = hold
                exp["states_end"] = "ErrorOccured" if kind == "abort" else "Terminated"
                return exp
            if kind == "deny":
                c, rep = topo.open(proto, "deny", T); exp.update(listener="%s_deny" % proto, connector=None)
            elif kind == "norule":
                c, rep = topo.open(proto, "none", T); exp.update(listener="%s_none" % proto, connector=None)
            elif kind == "refused":
                c, rep = topo.open(proto, "direct", ("ipv4", "127.0.0.1", closed_port))
                exp.update(listener="%s_direct" % proto, connector="direct", target="127.0.0.1:%d" % closed_port)
            elif kind == "nofeature":
                c, rep = bb.socks5_connect(topo.ports[("socks5", "lb")], ("ipv4", "0.0.0.0", 0), cmd=3)
                exp.update(listener="socks5_lb", connector=None, target=None, proto="socks5")
            elif kind == "badauth":
                c, rep = bb.socks5_connect(topo.ports[("socks5", "auth")], T, methods=(2,), auth=(b"alice", b"nope"))
                exp.update(listener="socks_auth_direct", connector=None, target=None, proto="socks5")
            else:  # garbage handshake
                port = topo.ports[(proto, "direct")]
                c, rep = bb.raw_connect(port, early=b"\xff\xfe garbage\r\n\r\n")
                exp.update(listener="%s_direct" % proto, connector=None, target=None)
            exp["sport"] = c.s.getsockname()[1]
            exp["error"] = True
            c.recv_until_eof(2.0)
            c.close()
            return exp
        except OSError as e:
            exp["exception"] = repr(e)
            return exp

    def worker(idx, origin):
        for i in idx:
            r = one(i, plan[i], origin)
            with lock:
                out.append(r)
    ths = []
    for t in range(len(origins)):
        th = threading.Thread(target=worker, args=(list(range(t, n, len(origins))), origins[t]))
        th.start()
        ths.append(th)
    for th in ths:
        th.join()
    return out, keep


def metrics_record(text, entries):
    """Prometheus text of GET /metrics next to the sums of the access-log records"""
    import re
    m_in, m_out, gc = {}, {}, 0
    for ln in text.splitlines():
        m = re.match(r'io_client_bytes\{listener="([^"]*)"\} (\d+)', ln)
        if m:
            m_in[m.group(1)] = int(m.group(2))
        m = re.match(r'io_server_bytes\{connector="([^"]*)"\} (\d+)', ln)
        if m:
            m_out[m.group(1)] = int(m.group(2))
        m = re.match(r'context_gc_count (\d+)', ln)
        if m:
            gc = int(m.group(1))
    rec_in, rec_out = {}, {}
    for e in entries:
        if e.get("listener"):
            rec_in[e["listener"]] = rec_in.get(e["listener"], 0) + e["client_stat"]["read_bytes"]
        if e.get("connector"):
            rec_out[e["connector"]] = rec_out.get(e["connector"], 0) + e["server_stat"]["read_bytes"]
    rec_in = {k: n for k, n in rec_in.items() if n or k in m_in}
    rec_out = {k: n for k, n in rec_out.items() if n or k in m_out}
    for k in rec_in:
        m_in.setdefault(k, 0)
    for k in rec_out:
        m_out.setdefault(k, 0)
    return {"ev": "metrics", "gc_count": gc, "m_in": m_in or {"-": 0}, "m_out": m_out or {"-": 0}, "rec_in": rec_in or {"-": 0}, "rec_out": rec_out or {"-": 0}}


def c16_churn(v, pid, wd, seconds):
    alog = os.path.join(wd, "access_churn.log")
    if os.path.exists(alog):
        os.remove(alog)
    topo = scen.Topology(wd, "c16_churn", splice=True, special=True, history=1000000, access_log=alog).start()
    port = topo.ports[("http", "deny")]
    made = [0] * 8
    end = time.time() + seconds

    def worker(i):
        while time.time() < end:
            try:
                s = socket.create_connection(("127.0.0.1", port), timeout=5)
                s.sendall(b"CONNECT 127.0.0.1:9 HTTP/1.1\r\n\r\n")
                s.settimeout(5)
                while s.recv(4096):
                    pass
                s.close()
                made[i] += 1
            except OSError:
                pass
    ths = [threading.Thread(target=worker, args=(i,)) for i in range(8)]
    for t in ths:
        t.start()
    for t in ths:
        t.join()
    time.sleep(2.6)          # two collector ticks
    st, body = topo.p1.api(topo.api1, "/history", timeout=30)
    hist_ids = [e["id"] for e in json.loads(body)]
    st, body = topo.p1.api(topo.api1, "/live", timeout=30)
    live_ids = [e["id"] for e in json.loads(body)]
    topo.p1.api(topo.api1, "/logrotate", method="POST", body="")
    time.sleep(0.5)
    alive = topo.p1.alive()
    panic = topo.p1.panicked()
    topo.stop()
    if panic or not alive:
        v.report("life/proxy-died", str(panic)[:300], {"tag": "churn"})
    log_ids = []
    if os.path.exists(alog):
        for ln in open(alog, "rb").read().decode("utf-8", "replace").splitlines():
            if ln.strip():
                log_ids.append(json.loads(ln)["id"])
    trace = topo.p1.trace()
    created = [e["id"] for e in trace if e["ev"] == "ctx_new"]
    res = {"made": sum(made), "contexts": len(created), "access_log_lines": len(log_ids), "history_entries": len(hist_ids), "still_live": len(live_ids)}
    if sum(made) < 300:
        raise vlib.ToolError("churn phase too slow to mean anything: %s" % res)
    # the model-based verdict: lifecycle events + the two snapshots + the log as one TraceLife trace
    lines, _, _ = gather(topo, [], 1000000)
    lines.append({"ev": "api_live", "ids": sorted(live_ids)})
    lines.append({"ev": "api_history", "ids": hist_ids})
    lines.append({"ev": "log_lines", "ids": log_ids})
    validate(v, pid, wd, "churn", lines, [], cfg="TraceLifeLite.cfg")
    return res


def run_c16(pid, tier, t0):
    v = vlib.Verdicts(pid)
    wd = vlib.workdir(pid.lower())
    thorough = tier == "thorough"
    seed = vlib.seed()
    vlib.build_harness()
    mcs = [vlib.tlc_must_pass(vlib.run_tlc("Life", cfg, workers=8, timeout=1200, name=cfg[:-4]), cfg) for cfg in ("MCLife.cfg", "MCLife0.cfg", "MCLife2.cfg")]
    configs = [(5, True, 33), (0, False, 22), (100, True, 33)] if not thorough else [(5, True, 120), (0, False, 60), (100, False, 150), (3, True, 90)]
    nconn = 0
    ntr = 0
    samples = []
    metrics_recs = []
    rotations = []
    for hist, splice, n in configs:
        rnd = random.Random(seed * 100 + hist)
        tag = "h%d_%s" % (hist, "splice" if splice else "buffered")
        alog = os.path.join(wd, "access_%s.log" % tag)
        if os.path.exists(alog):
            os.remove(alog)
        origins = [bb.TcpOrigin() for _ in range(8)]
        fakes = {"fakehttp": bb.FakeUpstream("http"), "fakesocks": bb.FakeUpstream("socks5")}
        for f in fakes.values():
            f.policy = lambda k: {"glue": bb.payload("g%d" % k, 30 + 7 * (k % 9)) if k % 3 else b"", "split": k % 2 == 0}
        topo = scen.Topology(wd, "c16_" + tag, splice=splice, special=True, history=hist, access_log=alog,
                             fake={"fakehttp": ("http", fakes["fakehttp"].port), "fakesocks": ("socks", fakes["fakesocks"].port)}).start()
        topo.fakes = fakes
        api_results = []     # (handler, event) in call order
        # log rotation at any time: while the burst runs the log file is moved away and POST /logrotate is called again and again
        rot = {"stop": False, "files": [], "calls": 0}

        def rotator():
            k = 0
            while not rot["stop"]:
                time.sleep(0.15 + 0.1 * (k % 3))
                dst = "%s.%d" % (alog, k)
                try:
                    os.rename(alog, dst)
                except OSError:
                    continue
                rot["files"].append(dst)
                k += 1
                try:
                    topo.p1.api(topo.api1, "/logrotate", method="POST", body="")
                    rot["calls"] += 1
                except OSError:
                    pass
        for old in [f for f in os.listdir(wd) if f.startswith(os.path.basename(alog) + ".")]:
            os.remove(os.path.join(wd, old))
        rth = threading.Thread(target=rotator, daemon=True)
        rth.start()
        exps, keep = c16_burst(topo, origins, n, rnd)
        rot["stop"] = True
        rth.join(5)
        time.sleep(1.6)      # at least one gc tick: everything that ended is collected
        st, body = topo.p1.api(topo.api1, "/live")
        api_results.append(("get_alive", {"ev": "api_live", "ids": sorted(e["id"] for e in json.loads(body))}))
        st, body = topo.p1.api(topo.api1, "/history")
        api_results.append(("get_history", {"ev": "api_history", "ids": [e["id"] for e in json.loads(body)]}))
        for c, o, exp in keep:
            c.fin(); o.recv_until_eof(2.0); o.fin(); c.recv_until_eof(2.0); c.close(); o.close()
        time.sleep(1.6)
        st, body = topo.p1.api(topo.api1, "/live")
        api_results.append(("get_alive", {"ev": "api_live", "ids": sorted(e["id"] for e in json.loads(body))}))
        st, body = topo.p1.api(topo.api1, "/history")
        hist_entries = json.loads(body)
        api_results.append(("get_history", {"ev": "api_history", "ids": [e["id"] for e in hist_entries]}))
        st, mbody = topo.p1.api(topo.api1, "/metrics")
        topo.p1.api(topo.api1, "/logrotate", method="POST", body="")
        time.sleep(0.5)
        alive = topo.p1.alive()
        panic = topo.p1.panicked()
        topo.stop()
        for o in origins + list(fakes.values()):
            o.close()
        if panic or not alive:
            v.report("life/proxy-died", str(panic)[:300], {"tag": tag})
        entries = []
        for f in rot["files"] + [alog]:
            if os.path.exists(f):
                for ln in open(f, "rb").read().decode("utf-8", "replace").splitlines():
                    if ln.strip():
                        try:
                            entries.append(json.loads(ln))
                        except ValueError:
                            v.report("life/access-log/torn-line", {"file": os.path.basename(f), "line": ln[:200]}, {"tag": tag})
        rotations.append(rot["calls"])
        by_id = {e["id"]: e for e in entries}
        trace = topo.p1.trace()
        # attach API results to the api_end events of their handlers, in order
        extra = {}
        pend = {"get_alive": [r for h, r in api_results if h == "get_alive"], "get_history": [r for h, r in api_results if h == "get_history"]}
        for e in trace:
            if e["ev"] == "api_end" and e["handler"] in pend and pend[e["handler"]]:
                extra[e["seq"]] = pend[e["handler"]].pop(0)
        obs = []
        port_ids = {}
        for e in trace:
            if e["ev"] == "ctx_new":
                port_ids.setdefault((e["listener"], int(e["source"].rsplit(":", 1)[1])), []).append(e["id"])
        for x in exps:
            nconn += 1
            if x.get("exception") or x.get("unexpected"):
                v.report("life/scenario-failed/%s" % x["kind"], x, {"tag": tag})
                continue
            ids = port_ids.get((x["listener"], x["sport"]), [])
            if len(ids) != 1:
                continue
            ent = by_id.get(ids[0])
            if ent is None:
                obs.append({"ev": "obs_record", "id": ids[0], "kind": x["kind"], "listener_ok": False, "source_ok": False, "target_ok": False,
                            "connector_ok": False, "bytes_ok": False, "states": [], "error_recorded": False, "missing_in_access_log": True})
                continue
            states = [s["state"] for s in ent["state"]]
            bytes_ok = True
            if x.get("c_bytes") is not None:
                bytes_ok = ent["client_stat"]["read_bytes"] == x["c_bytes"] and ent["server_stat"]["read_bytes"] == x["s_bytes"]
            obs.append({"ev": "obs_record", "id": ids[0], "kind": x["kind"],
                        "listener_ok": ent["listener"] == x["listener"],
                        "source_ok": ent["source"] == "127.0.0.1:%d" % x["sport"],
                        "target_ok": x["target"] is None or ent["target"] == x["target"],
                        "connector_ok": ent["connector"] == x["connector"] or (x["connector"] is None and ent["connector"] in (None, "lb")),
                        "bytes_ok": bytes_ok, "states": states, "error_recorded": ent["error"] is not None,
                        "recorded": {"target": ent["target"], "connector": ent["connector"], "c_bytes": ent["client_stat"]["read_bytes"],
                                     "s_bytes": ent["server_stat"]["read_bytes"], "error": ent["error"]},
                        "expected": {k: x.get(k) for k in ("target", "connector", "c_bytes", "s_bytes")}})
        obs.append({"ev": "log_lines", "ids": [e["id"] for e in entries]})
        mrec = metrics_record(mbody.decode("utf-8", "replace"), entries)
        mrec["lines"] = len(entries)
        mrec["config"] = tag
        metrics_recs.append(mrec)
        lines, _, _ = gather(topo, [], hist, extra_events=extra)
        lines += obs
        if validate(v, pid, wd, tag, lines, obs, cfg="TraceLifeLite.cfg"):      # replies are C06's subject; without them the search is linear
            ntr += 1
        samples.append({"history_size": hist, "connections": n, "api": [r for _, r in api_results][:2], "record": obs[0] if obs else None})
    # sustained churn: connections keep ending while the collector is at work (it hands each record to the log task through a
    # bounded channel, so a pass takes a while): every one of them must still be reported exactly once
    churn = c16_churn(v, pid, wd, 4.0 if thorough else 1.2)
    ntr += 1
    nconn += churn["made"]
    # growth beyond C16: Prometheus counters as a refinement of the records (MetricsObs.tla); reported, never a violation
    mp = os.path.join(wd, "metrics.ndjson")
    vlib.write_ndjson(mp, [{k: v for k, v in r.items() if k not in ("ev", "config")} for r in metrics_recs])
    mg = vlib.run_tlc("MetricsObs", "MetricsObs.cfg", workers=1, timeout=120, env_extra={"METRICS": mp})
    metrics_dev = []
    for c in (mg.cases if mg.ok else []):
        r = c["rec"]
        metrics_dev.append({"gc_count_vs_lines": [r["gc_count"], r["lines"]],
                            "io_client_bytes_minus_records": {k: r["m_in"].get(k, 0) - n for k, n in r["rec_in"].items() if r["m_in"].get(k, 0) != n},
                            "io_server_bytes_minus_records": {k: r["m_out"].get(k, 0) - n for k, n in r["rec_out"].items() if r["m_out"].get(k, 0) != n}})
    ev = vlib.evidence(pid, tier, "model_checking", {
        "metrics_refinement": {"scrapes": len(metrics_recs), "checked_by": "MetricsObs.tla" if mg.ok else "not evaluated", "deviations": metrics_dev,
                               "note": "outside C16: bytes a peer sends right behind its handshake are in the record's counters but not in io_*_bytes"},
        "states": sum(m.distinct for m in mcs), "transitions": sum(m.generated for m in mcs), "traces_validated_against_impl": ntr,
        "samples": samples[:2], "evaluations": nconn, "distinct_nontrivial": nconn,
        "rule": "Life.tla (3 connections x all outcomes x history size 0/1/2); bursts of mixed connections (ok, ok with early data, ok through an "
                "upstream proxy, denied, no rule, refused, bad password, garbage handshake, aborted mid-tunnel, unsupported feature) from 8 "
                "threads against real processes with history sizes incl. 0 and smaller than the burst; lifecycle events + /live and /history "
                "snapshots at quiescent points + access log lines + per-connection record checks are one TraceLife trace per configuration",
        "churn": churn, "configurations": [{"history": h, "splice": s, "connections": n} for h, s, n in configs], "log_rotations_during_bursts": rotations, "exhaustive": False, "checker_cmd": mcs[0].cmd,
    }, ["API snapshots are taken when the driver has no connection in transition (quiescent), so they must equal the model's sets exactly",
        "UDP sessions are covered by C10's runs"])
    return v.finish(ev, t0)

"""C17 - load-balancer selection laws. TLA+: LB.tla (atomic ticket, hash, random), MCLB, TraceLB (impl->spec)."""
import json, os, random
import vlib

PID = "C17"


def reqs_pool(rnd, n):
    out = []
    hosts = ["10.0.0.%d" % i for i in range(1, 6)]
    # incl. the same destination text in two internal forms (a host name that happens to be an address literal, as SOCKS5
    # ATYP=domain or SOCKS4a carry it, next to the address itself): equal keys whatever the form
    tg = [("domain", "ex.com", 80), ("domain", "a.b", 443), ("ipv4", "10.2.3.4", 443), ("ipv6", "2001:db8::1", 80), ("domain", "10.2.3.4", 443),
          ("domain", "10.9.9.9", 80), ("ipv4", "10.9.9.9", 80)]
    for i in range(n):
        k, h, p = rnd.choice(tg)
        out.append({"listener": rnd.choice(["l1", "l2"]), "source": "%s:%d" % (rnd.choice(hosts), 1000 + i), "feature": "TcpForward",
                    "target": {"kind": k, "host": h, "port": p}})
    return out


KEYS = {"request.target": lambda r: ("[%s]:%d" if r["target"]["kind"] == "ipv6" else "%s:%d") % (r["target"]["host"], r["target"]["port"]),
        "request.source": lambda r: r["source"],
        "request.source.host": lambda r: r["source"].rsplit(":", 1)[0],
        "request.target.host": lambda r: r["target"]["host"],
        "request.listener": lambda r: r["listener"],
        "to_string(request.target.port)": lambda r: str(r["target"]["port"])}


def run(tier, t0):
    v = vlib.Verdicts(PID)
    wd = vlib.workdir("c17")
    thorough = tier == "thorough"
    seed = vlib.seed()
    rnd = random.Random(seed)
    vlib.build_harness()
    mc = vlib.tlc_must_pass(vlib.run_tlc("MCLB", "MCLB.cfg", workers=8, timeout=900), "MCLB")
    mc2 = vlib.tlc_must_pass(vlib.run_tlc("MCLB", "MCLBdup.cfg", workers=8, timeout=900), "MCLBdup")
    scen = []
    member_sets = [["m1"], ["m1", "m2"], ["m1", "m2", "m3"], ["m1", "m2", "m3", "m4", "m5"], ["m1", "m2", "m1"]]
    if thorough:
        member_sets += [["m%d" % i for i in range(1, 9)], ["m1", "m1", "m2", "m3", "m3", "m3", "m4"]]
    for ms in member_sets:
        scen.append(("rr", "rr", ms))
        scen.append(("rrconc", "rr", ms))
        scen.append(("random", "random", ms))
        for key in KEYS:
            scen.append(("hash", key, ms))
    tasks = 32 if thorough else 16
    traces = 0
    events = 0
    samples = []
    for si, (algo, arg, ms) in enumerate(scen):
        mode = "conc" if algo == "rrconc" else "seq"
        algo = "rr" if algo == "rrconc" else algo
        ntasks = 1 if (algo == "rr" and mode == "seq") else tasks
        n = len(ms)
        uniq = sorted(set(ms))
        per = (60 if thorough else 25) * n if algo != "random" else 200 * n // tasks + 1
        if algo == "rr":
            # concurrent run: about 2400 (quick) / 9600 (thorough) selections in all, a multiple of n per task; the heavy contention is the hammer's job
            per = 40 * n if mode == "seq" else (((9600 if thorough else 2400) // ntasks) // n + 1) * n
        algo_yaml = {"rr": "rr", "random": "random"}.get(algo) or '{hashBy: "%s"}' % arg.replace('"', '\\"')
        # both spellings of the key and of the algorithm names (algo / algorithm, rr / roundRobin, hashBy / hash)
        key_name = "algorithm" if si % 2 else "algo"
        if si % 4 >= 2:
            algo_yaml = {"rr": "roundRobin"}.get(algo_yaml, algo_yaml.replace("{hashBy:", "{hash:"))
        yaml = "name: lb\ntype: loadbalance\nconnectors: [%s]\n%s: %s\n" % (", ".join(ms), key_name, algo_yaml)
        reqs = reqs_pool(rnd, 40)
        case = {"id": si, "yaml": yaml, "lb": "lb", "members": uniq, "tasks": ntasks, "per_task": per, "reqs": reqs}
        cp = os.path.join(wd, "lb_%d.ndjson" % si)
        vlib.write_ndjson(cp, [case])
        vt = os.path.join(wd, "vtrace_%d.ndjson" % si)
        if os.path.exists(vt):
            os.remove(vt)
        rc, out, err = vlib.vh(["lb", cp], env_extra={"REDPROXY_VTRACE": vt}, timeout=600)
        if rc != 0:
            raise vlib.ToolError("vh lb failed: " + err)
        r = [json.loads(x) for x in out.splitlines() if x.strip()][0]
        rep = {"driver": "vh lb", "case": case}
        if r["load"] != "ok":
            v.report("lb/load/%s/%s" % (algo, r["load"]), r.get("err"), rep)
            continue
        sel = [e for e in vlib.read_ndjson(vt) if e["ev"] == "lb_select"] if os.path.exists(vt) else []
        sel.sort(key=lambda e: e["seq"])
        inv = {}
        for name, cid in r["invoked"]:
            inv[cid] = name
        keys = sorted({e.get("key", "") for e in sel if e["algo"] == "hash"})
        lines = [{"ev": "hdr", "members": ms, "algo": algo, "mode": mode, "keys": keys or ["-"]}]
        lines += [{k: e[k] for k in e if k not in ("seq", "t", "lb", "ticket", "n")} for e in sel]
        for c in r["calls"]:
            lines.append({"ev": "obs", "invoked": inv.get(c["ctx"], "NONE"), "recorded": c["recorded"] or "NONE"})
        counts = {m: 0 for m in uniq}
        for name in inv.values():
            counts[name] = counts.get(name, 0) + 1
        lines.append({"ev": "sum", "invoked": counts, "total": len(r["calls"])})
        tp = os.path.join(wd, "trace_%d.ndjson" % si)
        vlib.write_ndjson(tp, lines)
        traces += 1
        events += len(lines)
        if len(sel) != len(r["calls"]):
            v.report("lb/hook-missing", {"selections_logged": len(sel), "calls": len(r["calls"])}, rep)
            continue
        acc, info, tr = vlib.validate_trace("TraceLB", "TraceLB.cfg", tp, timeout=900, name="trace_lb")
        if not acc:
            keep = os.path.join(vlib.EVID, "replay", "C17_trace_%d.ndjson" % si)
            os.makedirs(os.path.dirname(keep), exist_ok=True)
            vlib.write_ndjson(keep, lines)
            v.report("lb/trace-rejected/%s%s" % (algo, "-concurrent" if mode == "conc" and algo == "rr" else ""), {"members": ms, "arg": arg, "info": info},
                     {"trace": keep, "cmd": "cd spec && TRACE=%s tlc -workers 1 -config TraceLB.cfg TraceLB.tla" % keep})
        # hash-by: equal keys (computed from the request by the documented attribute meaning) => equal member
        if algo == "hash":
            by = {}
            for c in r["calls"]:
                k = KEYS[arg](reqs[c["req"]])
                by.setdefault(k, set()).add(inv.get(c["ctx"]))
            if any(len(s) != 1 for s in by.values()):
                v.report("lb/hash-unstable", {"key_expr": arg, "members_per_key": {k: sorted(x or "-" for x in s) for k, s in by.items()}}, rep)
        if len(samples) < 3 and algo in ("rr", "hash"):
            samples.append({"members": ms, "algo": algo, "arg": arg, "events": lines[1:4], "sum": lines[-1]})
    # what is recorded on the connection is the member that carried it (or was tried): also through a nested balancer,
    # also when the member's connect fails
    for ni, (yamls, leaves, fail) in enumerate([
            (["name: inner\ntype: loadbalance\nconnectors: [m1, m2]\nalgo: rr\n", "name: lb\ntype: loadbalance\nconnectors: [inner, m3]\nalgo: rr\n"], ["m1", "m2", "m3"], []),
            (["name: inner\ntype: loadbalance\nconnectors: [m1, m2]\nalgo: random\n", "name: lb\ntype: loadbalance\nconnectors: [m3, inner]\nalgo: {hashBy: \"request.target\"}\n"], ["m1", "m2", "m3"], []),
            (["name: lb\ntype: loadbalance\nconnectors: [m1, m2, m3]\nalgo: rr\n"], ["m1", "m2", "m3"], ["m2"]),
            (["name: inner\ntype: loadbalance\nconnectors: [m1, m2]\nalgo: rr\n", "name: lb\ntype: loadbalance\nconnectors: [inner, m3]\nalgo: rr\n"], ["m1", "m2", "m3"], ["m1", "m3"])]):
        case = {"id": 2000 + ni, "yamls": yamls, "lb": "lb", "members": leaves, "fail": fail, "tasks": 4, "per_task": 30, "reqs": reqs_pool(rnd, 40)}
        cp = os.path.join(wd, "nested_%d.ndjson" % ni)
        vlib.write_ndjson(cp, [case])
        rc, out, err = vlib.vh(["lb", cp], timeout=300)
        if rc != 0:
            raise vlib.ToolError("vh lb (nested) failed: " + err)
        r = [json.loads(x) for x in out.splitlines() if x.strip()][0]
        rep = {"driver": "vh lb", "case": case}
        if r["load"] != "ok":
            v.report("lb/load/nested/%s" % r["load"], r.get("err"), rep)
            continue
        inv = {cid: name for name, cid in r["invoked"]}
        lines = [{"ev": "hdr", "members": leaves, "algo": "nested", "mode": "conc", "keys": ["-"]}]
        lines += [{"ev": "obs", "invoked": inv.get(c["ctx"], "NONE"), "recorded": c["recorded"] or "NONE"} for c in r["calls"]]
        tp = os.path.join(wd, "nested_trace_%d.ndjson" % ni)
        vlib.write_ndjson(tp, lines)
        acc, info, tr = vlib.validate_trace("TraceLB", "TraceLB.cfg", tp, timeout=300, name="trace_lb_nested")
        traces += 1
        events += len(lines)
        if not acc:
            bad = [l for l in lines[1:] if l["invoked"] != l["recorded"]][:3]
            v.report("lb/recorded-is-not-the-member-used/%s" % ("failing-member" if fail else "nested"), {"balancers": yamls, "failing": fail, "examples": bad, "info": info[:200]}, rep)
    # round robin under heavy contention: many threads, nothing but the selection is shared; judged by TraceLB's totals law
    hammered = 0
    for hi, ms in enumerate(member_sets):
        n = len(ms)
        uniq = sorted(set(ms))
        per = (400000 if thorough else 100000) // n * n
        case = {"id": 1000 + hi, "yaml": "name: lb\ntype: loadbalance\nconnectors: [%s]\nalgo: rr\n" % ", ".join(ms), "lb": "lb", "members": uniq,
                "tasks": 16, "per_task": per, "hammer": per, "reqs": reqs_pool(rnd, 16)}
        cp = os.path.join(wd, "hammer_%d.ndjson" % hi)
        vlib.write_ndjson(cp, [case])
        rc, out, err = vlib.vh(["lb", cp], timeout=900)
        if rc != 0:
            raise vlib.ToolError("vh lb (hammer) failed: " + err)
        r = [json.loads(x) for x in out.splitlines() if x.strip()][0]
        if r.get("load") != "ok":
            v.report("lb/load/hammer/%s" % r.get("load"), r.get("err"), {"driver": "vh lb", "case": case})
            continue
        hammered += r["total"]
        # the totals law of the spec, evaluated on the observed counts: k*n selections => k per position
        k = r["total"] // n
        bad = {m: c for m, c in r["hammer"].items() if c != k * ms.count(m)}
        lines = [{"ev": "hdr", "members": ms, "algo": "rr", "mode": "conc", "keys": ["-"]}]
        tp = os.path.join(wd, "hammer_trace_%d.ndjson" % hi)
        vlib.write_ndjson(tp, lines + [{"ev": "hammer", "counts": r["hammer"], "total": r["total"]}])
        acc, info, tr = vlib.validate_trace("TraceLB", "TraceLB.cfg", tp, timeout=300, name="trace_lb_hammer")
        traces += 1
        if bool(bad) == acc:
            raise vlib.ToolError("TraceLB and the driver disagree on the totals law: %s %s" % (bad, info))
        if not acc:
            v.report("lb/rr/unbalanced-under-contention", {"members": ms, "counts": r["hammer"], "total": r["total"], "expected_each": k},
                     {"driver": "vh lb", "case": case})
    ev = vlib.evidence(PID, tier, "model_checking", {
        "states": mc.distinct + mc2.distinct, "transitions": mc.generated + mc2.generated, "traces_validated_against_impl": traces,
        "samples": samples, "evaluations": events, "distinct_nontrivial": traces,
        "rule": "MCLB: 2 tasks x 6 selections over 3 members (and a list with a repeated member): OnlyMembers, TicketsExact, WindowLaw, "
                "HashStable; the real LoadBalanceConnector (built from YAML by connectors::from_value) over recording members is driven from "
                "%d tasks on a multi-thread runtime; its lb_select events (ticket order), the members invoked and the connector recorded "
                "on each context are validated by TraceLB; one trace per (member list, algorithm / key expression)" % tasks,
        "scenarios": len(scen), "rr_selections_under_contention": hammered, "exhaustive": False, "checker_cmd": mc.cmd,
    }, ["random: only membership and non-zero frequency in 200*n draws", "hash function itself is opaque; only stability per key is demanded"])
    return v.finish(ev, t0)


def replay(path):
    r = json.load(open(path))
    print(json.dumps(r["replay"])[:2000])
    return 0

"""C15 - rule hot-reload atomic and all-or-nothing. TLA+: Proxy.tla (SwapBegin/Validate/Swap/SwapEnd, Snapshot),
MCProxy (histories x concurrent deciders), TraceProxy (stress logs of the real code)."""
import json, os, random, subprocess
import vlib
from checks.c02 import CONNECTORS, req_json

PID = "C15"
FTXT = {"l1": 'request.listener == "l1"', "p80": "request.target.port == 80", "udp": 'request.feature == "UdpForward"',
        "syntax": "request.listener == ", "illtyped": "request.listener + 1"}
SWAPLISTS = {1: [("l1", "A"), ("none", "B")], 2: [("p80", "B"), ("udp", "deny"), ("none", "A")], 3: [("none", "deny")],
             4: [("syntax", "A"), ("none", "B")], 5: [("none", "A"), ("illtyped", "B")], 6: [("none", "A"), ("l1", "Zed")],
             # 7 / 8: neither denies a TCP request; a prefix of one plus the tail of the other does (MCProxy V7 / V8)
             7: [("udp", "deny")] * 3 + [("none", "A")], 8: [("none", "B")] + [("udp", "deny")] * 3 + [("none", "deny")]}


def rule_json(r):
    d = {"target": r["target"]}
    if r["fid"] != "none":
        d["filter"] = r["filter"]
    return d


def blackbox_histories(v, wd, hist):
    """the same histories through the real HTTP API of a real process: POST /api/rules, then CONNECT probes; which
    connector a probe was handed to comes from the proxy's connect_begin event"""
    import socket, time
    import bb, scen
    api, l1, l2, dead = bb.free_port(), bb.free_port(), bb.free_port(), bb.free_port()
    cfg = ("apiVersion: v1alpha\nkind: ProxyDefinition\nmetrics:\n  bind: \"127.0.0.1:%d\"\n  ui: null\n  historySize: 10\nlisteners:\n%s\nconnectors:\n%s\nrules:\n  - target: deny\n"
           % (api, scen.yaml_list([{"name": "l1", "type": "http", "bind": "127.0.0.1:%d" % l1}, {"name": "l2", "type": "http", "bind": "127.0.0.1:%d" % l2}]),
              scen.yaml_list([{"name": "A", "type": "direct"}, {"name": "B", "type": "direct"},
                              {"name": "C", "type": "http", "server": "127.0.0.1", "port": dead}])))
    p = bb.Proxy("c15_bb", wd, cfg).start(wait_ports=[api])
    ports = {"l1": l1, "l2": l2}
    nposts = nprobes = 0
    pos = [0]

    def new_events():
        """events appended to the proxy's trace file since the last call"""
        out = []
        try:
            with open(p.trace_path, "rb") as f:
                f.seek(pos[0])
                data = f.read()
        except OSError:
            return out
        end = data.rfind(b"\n") + 1
        pos[0] += end
        for ln in data[:end].splitlines():
            if ln.strip():
                out.append(json.loads(ln))
        return out
    try:
        for hi, h in enumerate(hist):
            if not h["ok"][0]:
                continue
            names = [[x["fid"] + ">" + x["target"] for x in l] for l in h["lists"]]
            for k, lst in enumerate(h["lists"]):
                body = json.dumps([rule_json(r) for r in lst])
                st, out = p.api(api, "/rules", method="POST", body=body)
                nposts += 1
                ok = st == 200
                rep = {"history": names, "post": k + 1, "body": body}
                if ok != h["ok"][k]:
                    v.report("rules/http-api/result/%s" % ("accepted-invalid" if ok else "refused-valid"), dict(rep, status=st, answer=out[:200].decode("utf-8", "replace")), rep)
                    break
                if ok and json.loads(out) != json.loads(body) and [r.get("target") for r in json.loads(out)] != [r["target"] for r in json.loads(body)]:
                    v.report("rules/http-api/answer-is-not-the-posted-list", dict(rep, answer=out[:300].decode("utf-8", "replace")), rep)
                got, want = [], []
                for qi, q in enumerate(h["reqs"]):
                    if q["feature"] != "TcpForward":
                        continue
                    try:
                        c, r = bb.http_connect(ports[q["listener"]], ("ipv4", "127.0.0.1", q["target"]["port"]), timeout=4.0)
                        c.close()
                    except OSError:
                        pass
                    nprobes += 1
                    time.sleep(0.002)
                    cb = [e["connector"] for e in new_events() if e["ev"] == "connect_begin"]
                    got.append(cb[0] if cb else "refused")
                    want.append(h["decisions"][k][qi])
                if got != want:
                    bad = [x["fid"] for x in lst if x["fid"] in ("syntax", "illtyped")] or (["unknown-target"] if not h["ok"][k] else [])
                    v.report("rules/http-api/in-force-after/%s" % (bad[0] if bad else "valid"), dict(rep, expected_decisions=want, observed=got, reported_ok=ok), rep)
                    break
    finally:
        alive = p.alive()
        p.stop()
    if not alive:
        v.report("rules/http-api/proxy-died", str(p.panicked())[:300], {})
    return nposts, nprobes


def run(tier, t0):
    v = vlib.Verdicts(PID)
    wd = vlib.workdir("c15")
    thorough = tier == "thorough"
    seed = vlib.seed()
    vlib.build_harness()
    mc = vlib.tlc_must_pass(vlib.run_tlc("MCProxy", "MCProxySwap3.cfg" if thorough else "MCProxySwap.cfg", workers=12, timeout=3400,
                                         xmx="24g"), "MCProxySwap")
    gen = vlib.tlc_must_pass(vlib.run_tlc("MCProxy", "GenProxySwap.cfg", workers=4, timeout=900), "GenProxySwap")
    hist = gen.cases
    if len(hist) < 40:
        raise vlib.ToolError("too few histories")
    cases = []
    for i, h in enumerate(hist):
        cases.append({"id": i, "connectors": CONNECTORS, "lists": [[rule_json(r) for r in l] for l in h["lists"]],
                      "reqs": [req_json(q) for q in h["reqs"]]})
    path = os.path.join(wd, "cases.ndjson")
    vlib.write_ndjson(path, cases)
    res = os.path.join(wd, "res.ndjson")
    rc, _, err = vlib.vh(["rules", path], stdout_path=res)
    if rc != 0:
        raise vlib.ToolError("vh rules failed: " + err)
    seen = 0
    nposts = 0
    for r in vlib.read_ndjson(res):
        if r.get("summary"):
            continue
        seen += 1
        h = hist[r["id"]]
        rep = {"driver": "vh rules", "case": cases[r["id"]]}
        names = [[x["fid"] + ">" + x["target"] for x in l] for l in h["lists"]]
        if r["load"] != "ok":
            v.report("rules/%s" % r["load"], {"history": names, "err": r.get("err")}, rep)
            continue
        for k, st in enumerate(r["steps"]):
            nposts += 1
            want = h["decisions"][k]
            got = [(p["invoked"][0] if p["invoked"] else "refused") for p in st["probes"]]
            got2 = [(p["invoked"][0] if p["invoked"] else "refused") for p in st["probes_after_roundtrip"]]
            ctx = {"history": names, "post": k + 1, "expected_ok": h["ok"][k], "reported_ok": st["ok"], "err": st["err"],
                   "expected_decisions": want, "observed": got}
            bad = [x["fid"] for x in h["lists"][k] if x["fid"] in ("syntax", "illtyped")] or (["unknown-target"] if not h["ok"][k] else [])
            cls = (bad[0] if bad else "valid")
            if st["ok"] != h["ok"][k]:
                v.report("rules/result/%s" % cls, ctx, rep)
            elif got != want:
                v.report("rules/in-force-after/%s" % cls, ctx, rep)
            elif not st["roundtrip_ok"] or got2 != want:
                v.report("rules/get-post-roundtrip", dict(ctx, roundtrip_err=st["roundtrip_err"], after=got2), rep)
    if seen != len(cases):
        raise vlib.ToolError("rules driver answered %d of %d" % (seen, len(cases)))
    bb_posts, bb_probes = blackbox_histories(v, wd, hist)
    # impl -> spec: concurrent deciders + poster, validated by TraceProxy
    ntr = 12 if thorough else 4
    accepted = 0
    events = 0
    sample_trace = None
    reqs = [req_json(q) for q in hist[0]["reqs"]]
    for t in range(ntr):
        rnd = random.Random(seed * 1000 + t)
        seq = [1] + [rnd.choice([1, 2, 3, 4, 5, 6, 2, 3]) for _ in range(60)]
        slots = 2 + (t % 2)
        case = {"connectors": CONNECTORS, "reqs": reqs, "slots": slots, "per_slot": 150 if thorough else 80,
                "lists": [[dict(target=tg, **({"filter": FTXT[f]} if f != "none" else {})) for f, tg in SWAPLISTS[i]] for i in seq]}
        cp = os.path.join(wd, "stress_%d.json" % t)
        json.dump(case, open(cp, "w"))
        rc, out, err = vlib.vh(["rules-stress", cp], timeout=600)
        if rc != 0:
            raise vlib.ToolError("rules-stress failed: " + err)
        lines = [json.dumps({"ev": "lists", "seq": seq, "slots": slots})] + [x for x in out.splitlines() if x.strip()]
        tp = os.path.join(wd, "stress_%d.ndjson" % t)
        open(tp, "w").write("\n".join(lines) + "\n")
        events += len(lines) - 1
        acc, info, tr = vlib.validate_trace("TraceProxy", "TraceProxy.cfg", tp, timeout=1500, name="trace_proxy", dfs=False)
        if acc:
            accepted += 1
            sample_trace = sample_trace or [json.loads(x) for x in lines[1:9]]
        else:
            keep = os.path.join(vlib.EVID, "replay", "C15_trace_%d.ndjson" % t)
            os.makedirs(os.path.dirname(keep), exist_ok=True)
            open(keep, "w").write("\n".join(lines) + "\n")
            v.report("rules/trace-rejected", info, {"trace": keep, "cmd": "cd spec && TRACE=%s tlc -workers 1 -config TraceProxy.cfg TraceProxy.tla" % keep})
    # decisions under a stream of replacements between two long lists (wide window, no interleaving search): ProxyObs
    padl = [("udp", "deny")] * 40
    l7 = [dict(target=tg, **({"filter": FTXT[f]} if f != "none" else {})) for f, tg in padl + [("none", "A")]]
    l8 = [dict(target=tg, **({"filter": FTXT[f]} if f != "none" else {})) for f, tg in [("none", "B")] + padl + [("none", "deny")]]
    mix_reqs = 0
    for t in range(3 if thorough else 2):
        case = {"connectors": CONNECTORS, "reqs": reqs, "slots": 4, "per_slot": 1500 if thorough else 600, "lists": [l7] + [[l8, l7][k % 2] for k in range(400)]}
        cp = os.path.join(wd, "mix_%d.json" % t)
        json.dump(case, open(cp, "w"))
        rc, out, err = vlib.vh(["rules-stress", cp], timeout=600)
        if rc != 0:
            raise vlib.ToolError("rules-stress (mix) failed: " + err)
        recs = []
        for x in out.splitlines():
            if not x.strip():
                continue
            e = json.loads(x)
            if e.get("ev") == "req_end" and reqs[e["req"] - 1]["feature"] == "TcpForward":
                recs.append({"req": e["req"], "decided": e["invoked"] if e["invoked"] != "none" else "refused"})
        mix_reqs += len(recs)
        op = os.path.join(wd, "mix_obs_%d.ndjson" % t)
        vlib.write_ndjson(op, recs)
        g = vlib.tlc_must_pass(vlib.run_tlc("ProxyObs", "ProxyObs.cfg", workers=1, timeout=600, env_extra={"OBS": op}, name="ProxyObs"), "ProxyObs")
        if g.distinct < len(recs):
            raise vlib.ToolError("ProxyObs did not visit every record")
        for c in g.cases[:3]:
            v.report("rules/decided-by-a-mixture-of-two-lists", {"request": reqs[c["rec"]["req"] - 1], "decided": c["rec"]["decided"], "either_list_alone_gives": c["allowed"]},
                     {"driver": "vh rules-stress", "case_file": cp})
    ev = vlib.evidence(PID, tier, "model_checking", {
        "states": mc.distinct, "transitions": mc.generated, "traces_validated_against_impl": len(cases) + ntr,
        "samples": [{"history": [[x["fid"] + ">" + x["target"] for x in l] for l in hist[len(hist) // 2]["lists"]],
                     "expected_ok": hist[len(hist) // 2]["ok"], "expected_decisions": hist[len(hist) // 2]["decisions"]},
                    {"stress_trace_prefix": sample_trace}],
        "evaluations": nposts + events, "distinct_nontrivial": len(cases),
        "rule": "MCProxy: every history of up to %d posts over {3 valid lists, syntax error, type error, unknown target} interleaved with 2 "
                "concurrent deciders; every history of up to 3 posts replayed through the configuration path / the POST /rules code path with "
                "4 probe requests after each post and a GET->POST round trip; stress logs (deciders + poster on a multi-thread runtime) "
                "validated by TraceProxy with the spec's own internal steps" % (3 if thorough else 2),
        "histories": len(cases), "posts": nposts, "http_api_posts": bb_posts, "http_api_probes": bb_probes, "stress_traces": ntr, "stress_traces_accepted": accepted, "stress_events": events, "requests_under_replacement_stream": mix_reqs,
        "exhaustive": True, "checker_cmd": mc.cmd,
    }, ["the histories run twice: in-process on set_rules, and through POST /api/rules of a real process (connector chosen = connect_begin event)",
        "event order = order of acquisition of the harness' log mutex immediately before/after each call"])
    return v.finish(ev, t0)


def replay(path):
    r = json.load(open(path))
    rp = r["replay"]
    if "case" in rp:
        wd = vlib.workdir("c15_replay")
        p = os.path.join(wd, "case.ndjson")
        vlib.write_ndjson(p, [rp["case"]])
        rc, out, err = vlib.vh(["rules", p])
        print(out)
    else:
        print(rp)
    return 0

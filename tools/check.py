#!/usr/bin/env python3
"""Entry point: python3 tools/check.py <ID> --tier quick|thorough   (cwd = /verif)
exit 0 = property held on everything explored (KNOWN-FINDING lines may be printed),
exit 1 = VIOLATION line(s) printed, exit 2 = tool error / timeout / vacuous run."""
import argparse, importlib, os, sys, time, traceback
sys.path.insert(0, os.path.dirname(os.path.abspath(__file__)))
import vlib


def main():
    ap = argparse.ArgumentParser()
    ap.add_argument("pid")
    ap.add_argument("--tier", default=os.environ.get("VERIF_TIER", "quick"), choices=["quick", "thorough"])
    ap.add_argument("--replay", default=None)
    a = ap.parse_args()
    os.chdir(vlib.ROOT)
    try:
        mod = importlib.import_module("checks." + a.pid.lower())
    except ImportError as e:
        print("no check for %s (%s)" % (a.pid, e), file=sys.stderr)
        return 2
    t0 = time.time()
    try:
        if a.replay:
            return mod.replay(a.replay)
        return mod.run(a.tier, t0)
    except vlib.ToolError as e:
        print("TOOL-ERROR property=%s %s" % (a.pid, e), file=sys.stderr)
        return 2
    except Exception:
        traceback.print_exc()
        return 2


if __name__ == "__main__":
    sys.exit(main())

"""Black-box driver library: real proxy processes (`rp`, built from /repo's working tree with hooks on),
TCP/UDP origins whose every step is scripted from the test thread, protocol clients, API client."""
import hashlib, http.client, json, os, select, signal, socket, ssl, struct, subprocess, threading, time, queue
import vlib

FIX = os.path.join(vlib.ROOT, "fixtures")


_port_lock = threading.Lock()
_next_port = [0]


def free_port(kind=socket.SOCK_STREAM, host="127.0.0.1"):
    """ports below the ephemeral range (no collision with outgoing connections), handed out once per process,
    from a window that depends on the pid so that concurrently running checks do not collide"""
    with _port_lock:
        if _next_port[0] == 0:
            _next_port[0] = 10000 + (os.getpid() % 110) * 200
        for _ in range(20000):
            p = _next_port[0]
            _next_port[0] += 1
            if _next_port[0] >= 32000:
                _next_port[0] = 10000
            try:
                s = socket.socket(socket.AF_INET6 if ":" in host else socket.AF_INET, kind)
                s.bind((host, p))
                s.close()
                if kind == socket.SOCK_STREAM:
                    # also make sure nobody listens on the other family / wildcard
                    s2 = socket.socket(socket.AF_INET, socket.SOCK_DGRAM)
                    s2.bind(("127.0.0.1", p))
                    s2.close()
                return p
            except OSError:
                continue
    raise vlib.ToolError("no free port")


def payload(tag, n, off=0):
    """deterministic byte stream `tag`, bytes off..off+n"""
    out = bytearray()
    blk = off // 4096
    while len(out) < n + (off % 4096):
        out += hashlib.shake_128(("%s:%d" % (tag, blk)).encode()).digest(4096)
        blk += 1
    s = off % 4096
    return bytes(out[s:s + n])


class Proxy:
    def __init__(self, name, wd, cfg_yaml, env=None, log_level="warn"):
        self.name = name
        self.wd = wd
        self.cfg_path = os.path.join(wd, name + ".yaml")
        self.trace_path = os.path.join(wd, name + ".vtrace.ndjson")
        self.log_path = os.path.join(wd, name + ".log")
        self.panic_path = os.path.join(wd, name + ".panic")
        open(self.cfg_path, "w").write(cfg_yaml)
        for p in (self.trace_path, self.panic_path):
            if os.path.exists(p):
                os.remove(p)
        self.env = dict(os.environ)
        self.env.update({"REDPROXY_VTRACE": self.trace_path, "REDPROXY_PANIC_FILE": self.panic_path, "RUST_LOG": log_level,
                         "RUST_BACKTRACE": "0"})
        if env:
            self.env.update(env)
        self.p = None
        self.log_level = log_level

    def start(self, wait_ports=(), timeout=15.0, extra_args=()):
        bindir = vlib.build_harness()
        self.logf = open(self.log_path, "ab")
        self.p = subprocess.Popen([os.path.join(bindir, "rp"), "-c", self.cfg_path, "-l", self.log_level] + list(extra_args),
                                  stdout=self.logf, stderr=subprocess.STDOUT, env=self.env, cwd=self.wd)
        t0 = time.time()
        for port in wait_ports:
            while True:
                if self.p.poll() is not None:
                    raise vlib.ToolError("proxy %s exited at start (rc=%s): %s" % (self.name, self.p.returncode, self.tail_log()))
                try:
                    s = socket.create_connection(("127.0.0.1", port), timeout=0.3)
                    s.close()
                    break
                except OSError:
                    if time.time() - t0 > timeout:
                        raise vlib.ToolError("proxy %s: port %d not up: %s" % (self.name, port, self.tail_log()))
                    time.sleep(0.05)
        return self

    def tail_log(self, n=1500):
        try:
            return open(self.log_path, "rb").read()[-n:].decode("utf-8", "replace")
        except OSError:
            return ""

    def alive(self):
        return self.p is not None and self.p.poll() is None

    def panicked(self):
        return os.path.exists(self.panic_path) and open(self.panic_path).read()

    def stop(self):
        if self.p and self.p.poll() is None:
            self.p.terminate()
            try:
                self.p.wait(3)
            except subprocess.TimeoutExpired:
                self.p.kill()
                self.p.wait(3)
        if self.p:
            self.logf.close()

    def kill9(self):
        if self.p and self.p.poll() is None:
            self.p.kill()
            self.p.wait(3)

    def trace(self):
        if not os.path.exists(self.trace_path):
            return []
        return vlib.read_ndjson(self.trace_path)

    def api(self, port, path, method="GET", body=None, timeout=5.0):
        c = http.client.HTTPConnection("127.0.0.1", port, timeout=timeout)
        try:
            hdr = {"Content-Type": "application/json"} if body is not None else {}
            c.request(method, "/api" + path, body=body, headers=hdr)
            r = c.getresponse()
            data = r.read()
            return r.status, data
        finally:
            c.close()


# ---------------------------------------------------------------------------------------------
class Conn:
    """a TCP endpoint driven step by step from the test thread"""

    def __init__(self, sock):
        self.s = sock
        self.s.settimeout(5.0)
        self.rx = bytearray()
        self.eof = False
        self.err = None

    def send(self, data):
        try:
            self.s.sendall(data)
            return True
        except OSError as e:
            self.err = e
            return False

    def recv_some(self, timeout=2.0, want=1):
        """read until at least `want` more bytes, EOF, error or timeout"""
        end = time.time() + timeout
        got = 0
        while got < want and not self.eof and self.err is None:
            left = end - time.time()
            if left <= 0:
                break
            r, _, _ = select.select([self.s], [], [], left)
            if not r:
                break
            try:
                d = self.s.recv(65536)
            except OSError as e:
                self.err = e
                break
            if not d:
                self.eof = True
                break
            self.rx += d
            got += len(d)
        return got

    def recv_until_eof(self, timeout=5.0):
        end = time.time() + timeout
        while not self.eof and self.err is None and time.time() < end:
            self.recv_some(timeout=end - time.time(), want=1 << 30)
        return self.eof

    def fin(self):
        try:
            self.s.shutdown(socket.SHUT_WR)
        except OSError as e:
            self.err = e

    def rst(self):
        try:
            self.s.setsockopt(socket.SOL_SOCKET, socket.SO_LINGER, struct.pack("ii", 1, 0))
        except OSError:
            pass
        self.s.close()

    def close(self):
        try:
            self.s.close()
        except OSError:
            pass


class TcpOrigin:
    """listening socket; accepted connections are handed to the test thread"""

    def __init__(self, host="127.0.0.1", tls_ctx=None):
        fam = socket.AF_INET6 if ":" in host else socket.AF_INET
        self.ls = socket.socket(fam, socket.SOCK_STREAM)
        self.ls.setsockopt(socket.SOL_SOCKET, socket.SO_REUSEADDR, 1)
        self.ls.bind((host, 0))
        self.ls.listen(64)
        self.port = self.ls.getsockname()[1]
        self.host = host
        self.q = queue.Queue()
        self.accepted = 0
        self.stop = False
        self.tls_ctx = tls_ctx
        self.t = threading.Thread(target=self._run, daemon=True)
        self.t.start()

    def _run(self):
        self.ls.settimeout(0.2)
        while not self.stop:
            try:
                s, a = self.ls.accept()
            except socket.timeout:
                continue
            except OSError:
                break
            self.accepted += 1
            if self.tls_ctx:
                try:
                    s = self.tls_ctx.wrap_socket(s, server_side=True)
                except (ssl.SSLError, OSError):
                    continue
            self.q.put(Conn(s))

    def accept(self, timeout=3.0):
        try:
            return self.q.get(timeout=timeout)
        except queue.Empty:
            return None

    def close(self):
        self.stop = True
        try:
            self.ls.close()
        except OSError:
            pass


class FakeUpstream:
    """a scripted upstream proxy (HTTP CONNECT or SOCKS5) that is also the origin: it answers the connector's handshake
    with a success reply, optionally cut into segments (split) and / or with payload glued right behind it in the same
    segment (glue), then hands the connection to the test thread like TcpOrigin does (conn.glue = what was already sent)"""

    def __init__(self, kind):
        self.kind = kind
        self.ls = socket.socket(socket.AF_INET, socket.SOCK_STREAM)
        self.ls.setsockopt(socket.SOL_SOCKET, socket.SO_REUSEADDR, 1)
        self.ls.bind(("127.0.0.1", 0))
        self.ls.listen(64)
        self.port = self.ls.getsockname()[1]
        self.q = queue.Queue()
        self.stop = False
        self.n = 0
        self.refused = 0
        self.policy = lambda n: {"glue": b"", "split": False}
        threading.Thread(target=self._run, daemon=True).start()

    def _run(self):
        self.ls.settimeout(0.2)
        while not self.stop:
            try:
                s, _ = self.ls.accept()
            except socket.timeout:
                continue
            except OSError:
                break
            self.n += 1
            threading.Thread(target=self._serve, args=(s, self.n), daemon=True).start()

    def _serve(self, s, n):
        c = Conn(s)
        pol = self.policy(n)
        try:
            if self.kind == "http":
                while b"\r\n\r\n" not in c.rx and not c.eof and c.err is None:
                    if c.recv_some(timeout=3.0, want=1) == 0:
                        break
                head, _, rest = bytes(c.rx).partition(b"\r\n\r\n")
                c.rx = bytearray(rest)
                reply = b"HTTP/1.1 200 Connection established\r\nX-Upstream: scripted\r\n\r\n"
                if pol.get("refuse"):
                    reply = b"HTTP/1.1 %d Upstream says no\r\nContent-Length: 3\r\nX-Upstream: scripted\r\n\r\nno\n" % pol["refuse"]
                cuts = [len(reply) - 3, len(reply) - 1]
            elif self.kind == "socks4":
                while len(c.rx) < 9 or bytes(c.rx[8:]).count(b"\x00") < (2 if bytes(c.rx[4:7]) == b"\x00\x00\x00" and len(c.rx) > 7 and c.rx[7] != 0 else 1):
                    if c.eof or c.err is not None or c.recv_some(timeout=3.0, want=1) == 0:
                        break
                c.rx = bytearray()
                reply = b"\x00" + bytes([pol.get("refuse", 90)]) + b"\x00\x50\x7f\x00\x00\x01"
                cuts = [1, 5]
            else:
                def need(k):
                    while len(c.rx) < k and not c.eof and c.err is None:
                        if c.recv_some(timeout=3.0, want=1) == 0:
                            break
                    return len(c.rx) >= k
                if not need(2) or not need(2 + c.rx[1]):
                    c.close()
                    return
                c.rx = c.rx[2 + c.rx[1]:]
                c.send(b"\x05\x00")
                if not need(5):
                    c.close()
                    return
                alen = {1: 4, 4: 16}.get(c.rx[3], None)
                total = 4 + (alen if alen is not None else 1 + c.rx[4]) + 2
                if not need(total):
                    c.close()
                    return
                c.rx = c.rx[total:]
                name = b"bound.upstream.example"
                reply = b"\x05\x00\x00\x03" + bytes([len(name)]) + name + b"\x1f\x90"
                if pol.get("refuse"):
                    reply = b"\x05" + bytes([pol["refuse"]]) + b"\x00\x01\x00\x00\x00\x00\x00\x00"
                cuts = [5 + len(name) // 2, len(reply) - 1] if not pol.get("refuse") else [1, 4]
            glue = pol.get("glue", b"")
            if pol.get("split"):
                last = 0
                for k in cuts:
                    c.send(reply[last:k])
                    last = k
                    time.sleep(0.03)
                c.send(reply[last:] + glue)
            else:
                c.send(reply + glue)
            c.glue = glue
            c.policy = pol
            if pol.get("refuse"):
                self.refused += 1
                c.recv_until_eof(1.0)
                c.close()
                return
            self.q.put(c)
        except OSError:
            c.close()

    def accept(self, timeout=3.0):
        try:
            return self.q.get(timeout=timeout)
        except queue.Empty:
            return None

    def close(self):
        self.stop = True
        try:
            self.ls.close()
        except OSError:
            pass


class UdpOrigin:
    """UDP socket that records datagrams; optionally echoes them back prefixed with b'R:'"""

    def __init__(self, host="127.0.0.1", echo=True):
        fam = socket.AF_INET6 if ":" in host else socket.AF_INET
        self.s = socket.socket(fam, socket.SOCK_DGRAM)
        self.s.bind((host, 0))
        self.port = self.s.getsockname()[1]
        self.host = host
        self.echo = echo
        self.got = []      # (payload, from)
        self.stop = False
        self.t = threading.Thread(target=self._run, daemon=True)
        self.t.start()

    def _run(self):
        self.s.settimeout(0.2)
        while not self.stop:
            try:
                d, a = self.s.recvfrom(70000)
            except socket.timeout:
                continue
            except OSError:
                break
            self.got.append((d, a))
            if self.echo:
                try:
                    self.s.sendto(b"R:" + d, a)
                except OSError:
                    pass

    def close(self):
        self.stop = True
        try:
            self.s.close()
        except OSError:
            pass


# ---------------------------------------------------------------------------------------------
# protocol clients: each returns (Conn or None, reply description dict)

def _target_text(t):
    kind, host, port = t
    return ("[%s]:%d" % (host, port)) if kind == "ipv6" else "%s:%d" % (host, port)


def read_http_reply(c, timeout=5.0):
    """parse status line + headers strictly; body of Content-Length bytes if present; returns dict"""
    end = time.time() + timeout
    while b"\r\n\r\n" not in c.rx and not c.eof and c.err is None and time.time() < end:
        c.recv_some(timeout=end - time.time())
    if b"\r\n\r\n" not in c.rx:
        return {"proto": "http", "complete": False, "raw": bytes(c.rx), "eof": c.eof}
    head, rest = bytes(c.rx).split(b"\r\n\r\n", 1)
    lines = head.split(b"\r\n")
    parts = lines[0].split(b" ", 2)
    hdrs = {}
    for ln in lines[1:]:
        if b": " in ln:
            k, v = ln.split(b": ", 1)
            hdrs[k.decode("latin1").lower()] = v.decode("latin1")
    rep = {"proto": "http", "complete": True, "status": int(parts[1]) if len(parts) > 1 and parts[1].isdigit() else -1, "headers": hdrs}
    c.rx = bytearray(rest)
    return rep


def http_connect(port, target, early=b"", extra_headers="", tls_ctx=None, host="127.0.0.1", sni=None, timeout=5.0, raw_target=None):
    s = socket.create_connection((host, port), timeout=timeout)
    if tls_ctx:
        s = tls_ctx.wrap_socket(s, server_hostname=sni or "localhost")
    c = Conn(s)
    t = raw_target if raw_target is not None else _target_text(target)
    c.send(("CONNECT %s HTTP/1.1\r\nHost: %s\r\n%s\r\n" % (t, t, extra_headers)).encode("latin1") + early)
    rep = read_http_reply(c, timeout)
    return c, rep


def socks5_connect(port, target, early=b"", methods=(0,), auth=None, cmd=1, tls_ctx=None, timeout=5.0, sni=None):
    s = socket.create_connection(("127.0.0.1", port), timeout=timeout)
    if tls_ctx:
        s = tls_ctx.wrap_socket(s, server_hostname=sni or "localhost")
    c = Conn(s)
    kind, host, tport = target
    if kind == "domain":
        hb = host if isinstance(host, bytes) else host.encode()
        a = b"\x03" + bytes([len(hb)]) + hb
    elif kind == "ipv4":
        a = b"\x01" + socket.inet_aton(host)
    else:
        a = b"\x04" + socket.inet_pton(socket.AF_INET6, host)
    req = b"\x05" + bytes([cmd]) + b"\x00" + a + struct.pack(">H", tport)
    # everything pipelined in one write: method offer, (auth), request, early data
    msg = b"\x05" + bytes([len(methods)]) + bytes(methods)
    if auth is not None:
        u, p = auth
        msg += b"\x01" + bytes([len(u)]) + u + bytes([len(p)]) + p
    c.send(msg + req + early)
    rep = {"proto": "socks5", "complete": False}
    need = 2
    end = time.time() + timeout
    while len(c.rx) < need and not c.eof and c.err is None and time.time() < end:
        c.recv_some(timeout=end - time.time())
    if len(c.rx) < 2:
        rep["raw"] = bytes(c.rx)
        rep["eof"] = c.eof
        return c, rep
    rep["method"] = c.rx[1]
    off = 2
    if c.rx[1] == 0xff:
        rep["complete"] = True
        rep["refused_method"] = True
        c.rx = c.rx[2:]
        return c, rep
    if c.rx[1] == 2:
        while len(c.rx) < off + 2 and not c.eof and c.err is None and time.time() < end:
            c.recv_some(timeout=end - time.time())
        if len(c.rx) < off + 2:
            rep["raw"] = bytes(c.rx)
            rep["eof"] = c.eof
            return c, rep
        rep["auth_status"] = c.rx[off + 1]
        off += 2
    # reply: 05 rep 00 atyp addr port
    def have(n):
        while len(c.rx) < off + n and not c.eof and c.err is None and time.time() < end:
            c.recv_some(timeout=end - time.time())
        return len(c.rx) >= off + n
    if not have(4):
        rep["raw"] = bytes(c.rx[off:])
        rep["eof"] = c.eof
        return c, rep
    atyp = c.rx[off + 3]
    alen = {1: 4, 4: 16}.get(atyp)
    if atyp == 3:
        if not have(5):
            rep["raw"] = bytes(c.rx[off:])
            return c, rep
        alen = 1 + c.rx[off + 4]
    if alen is None or not have(4 + alen + 2):
        rep["raw"] = bytes(c.rx[off:])
        rep["eof"] = c.eof
        return c, rep
    rep.update({"complete": True, "ver": c.rx[off], "rep": c.rx[off + 1], "atyp": atyp,
                "bind": bytes(c.rx[off + 4:off + 4 + alen]), "bind_port": struct.unpack(">H", c.rx[off + 4 + alen:off + 6 + alen])[0]})
    c.rx = c.rx[off + 4 + alen + 2:]
    return c, rep


def socks4_connect(port, target, early=b"", userid=b"", cmd=1, timeout=5.0):
    s = socket.create_connection(("127.0.0.1", port), timeout=timeout)
    c = Conn(s)
    kind, host, tport = target
    if kind == "domain":
        msg = b"\x04" + bytes([cmd]) + struct.pack(">H", tport) + b"\x00\x00\x00\x01" + userid + b"\x00" + host.encode() + b"\x00"
    else:
        msg = b"\x04" + bytes([cmd]) + struct.pack(">H", tport) + socket.inet_aton(host) + userid + b"\x00"
    c.send(msg + early)
    end = time.time() + timeout
    while len(c.rx) < 8 and not c.eof and c.err is None and time.time() < end:
        c.recv_some(timeout=end - time.time())
    if len(c.rx) < 8:
        return c, {"proto": "socks4", "complete": False, "raw": bytes(c.rx), "eof": c.eof}
    rep = {"proto": "socks4", "complete": True, "vn": c.rx[0], "cd": c.rx[1]}
    c.rx = c.rx[8:]
    return c, rep


def raw_connect(port, early=b"", timeout=5.0):
    s = socket.create_connection(("127.0.0.1", port), timeout=timeout)
    c = Conn(s)
    if early:
        c.send(early)
    return c, {"proto": "raw", "complete": True}


def established(rep):
    if not rep.get("complete"):
        return False
    return {"http": rep.get("status") == 200, "socks5": rep.get("rep") == 0 and not rep.get("refused_method"),
            "socks4": rep.get("cd") == 90, "raw": True}[rep["proto"]]


def client_tls(ca=None, cert=None, key=None, verify=True):
    ctx = ssl.SSLContext(ssl.PROTOCOL_TLS_CLIENT)
    if verify and ca:
        ctx.load_verify_locations(ca)
    else:
        ctx.check_hostname = False
        ctx.verify_mode = ssl.CERT_NONE
    if cert:
        ctx.load_cert_chain(cert, key)
    return ctx

#!/usr/bin/env python3
"""usage: seedtest.py <seed dir under /verif/seeded> <check id> [<check id> ...]
applies seeded/<dir>/patch.diff to /repo, runs the quick checks, restores /repo, records the outcome in seeded/<dir>/meta.json"""
import json, os, subprocess, sys, time
REPO = os.environ.get("RP_SRC", "/repo")
ROOT = os.path.dirname(os.path.dirname(os.path.abspath(__file__)))
d = os.path.join(ROOT, "seeded", sys.argv[1])
checks = sys.argv[2:]
patch = os.path.join(d, "patch.diff")
assert subprocess.run(["git", "-C", REPO, "status", "--porcelain", "--untracked-files=no"], stdout=subprocess.PIPE, text=True).stdout.strip() == "", "/repo not clean"
subprocess.run(["git", "-C", REPO, "apply", patch], check=True)
res = {}
# the evidence files describe runs on the unchanged tree: what a seeded run writes is put aside afterwards
saved = {}
for c in checks:
    ep = os.path.join(ROOT, "evidence", c + ".json")
    saved[ep] = open(ep, "rb").read() if os.path.exists(ep) else None
try:
    for c in checks:
        t0 = time.time()
        p = subprocess.run(["python3", "tools/check.py", c, "--tier", "quick"], cwd=ROOT, stdout=subprocess.PIPE, stderr=subprocess.STDOUT, text=True)
        viol = [l for l in p.stdout.splitlines() if l.startswith("VIOLATION")]
        res[c] = {"exit": p.returncode, "violations": len(viol), "first": viol[0][:400] if viol else "", "wall_s": round(time.time() - t0)}
        print(c, res[c])
finally:
    subprocess.run(["git", "-C", REPO, "checkout", "--", "."], check=True)
    for ep, data in saved.items():
        if data is not None:
            open(ep, "wb").write(data)
mp = os.path.join(d, "meta.json")
m = json.load(open(mp)) if os.path.exists(mp) else {}
m.setdefault("checks_run_against_it", {}).update(res)
m["detected_by"] = sorted(c for c, r in m["checks_run_against_it"].items() if r["exit"] == 1)
json.dump(m, open(mp, "w"), indent=1)

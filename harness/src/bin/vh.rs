fn main() {
    rpverif::vh::main();
}

// The real proxy: calls the repository's main(). A panic is recorded and the process aborts,
// which reproduces the shipped `panic = 'abort'` profile.
fn main() {
    std::panic::set_hook(Box::new(|info| {
        eprintln!("VERIF-PANIC: {}", info);
        if let Ok(p) = std::env::var("REDPROXY_PANIC_FILE") {
            let _ = std::fs::write(p, format!("{}", info));
        }
        std::process::abort();
    }));
    if let Err(e) = rpverif::real_main() {
        eprintln!("Error: {:?}", e);
        std::process::exit(1);
    }
}

// Crate root = the repository's own main.rs, unmodified, from the current working tree.
// Harness modules are children of the crate root and therefore see every private item.
#![allow(dead_code, unused_imports, clippy::all)]
include!(concat!(env!("RP_SRC"), "/src/main.rs"));

#[path = "vh/mod.rs"]
pub mod vh;

pub fn real_main() -> Result<(), Terminator> {
    main()
}

//! C02 / C15 / C17: the real `process_request`, `GlobalState::set_rules`, `rules::from_config`,
//! `connectors::from_value` (load balancer) driven in-process with recording connectors and a
//! recording client callback.
use super::*;
use crate::connectors::Connector;
use crate::context::{Context, ContextCallback, ContextRef, Feature, TargetAddress};
use crate::rules::Rule;
use crate::GlobalState;
use async_trait::async_trait;
use easy_error::{err_msg, Error};
use std::collections::HashMap;
use std::sync::atomic::{AtomicUsize, Ordering};
use std::sync::{Arc, Mutex};

pub struct RecConnector {
    pub name: String,
    pub feats: Vec<Feature>,
    pub fail: bool,
    pub calls: Mutex<Vec<u64>>, // context ids
    pub order: Arc<Mutex<Vec<(String, u64)>>>,
    /// hammer mode: only count invocations, without any lock that would serialise the callers
    pub quiet: std::sync::atomic::AtomicBool,
    pub count: AtomicUsize,
}

#[async_trait]
impl Connector for RecConnector {
    async fn connect(self: Arc<Self>, _state: Arc<GlobalState>, ctx: ContextRef) -> Result<(), Error> {
        if self.quiet.load(Ordering::Relaxed) {
            self.count.fetch_add(1, Ordering::Relaxed);
            return Ok(());
        }
        let id = ctx.read().await.props().id;
        self.calls.lock().unwrap().push(id);
        self.order.lock().unwrap().push((self.name.clone(), id));
        if self.fail {
            Err(err_msg("recording connector: refused"))
        } else {
            Ok(())
        }
    }
    fn name(&self) -> &str {
        &self.name
    }
    fn features(&self) -> &[Feature] {
        &self.feats
    }
}

#[derive(Default)]
pub struct RecCallback {
    pub events: Arc<Mutex<Vec<String>>>,
}

#[async_trait]
impl ContextCallback for RecCallback {
    async fn on_connect(&self, _ctx: &mut Context) {
        self.events.lock().unwrap().push("connect".into());
    }
    async fn on_error(&self, _ctx: &mut Context, _e: Error) {
        self.events.lock().unwrap().push("error".into());
    }
    async fn on_finish(&self, _ctx: &mut Context) {
        self.events.lock().unwrap().push("finish".into());
    }
}

pub fn feature_of(s: &str) -> Feature {
    match s {
        "TcpForward" => Feature::TcpForward,
        "UdpForward" => Feature::UdpForward,
        "UdpBind" => Feature::UdpBind,
        _ => Feature::TcpBind,
    }
}

pub struct World {
    pub state: Arc<GlobalState>,
    pub recs: HashMap<String, Arc<RecConnector>>,
    pub order: Arc<Mutex<Vec<(String, u64)>>>,
}

/// connectors: {"A": {"features": ["TcpForward"], "fail": false}, ...}; extra: YAML connector definitions
/// (load balancers) built by the real connectors::from_value
pub async fn make_world(connectors: &J, extra_yaml: &[String]) -> Result<World, String> {
    let order = Arc::new(Mutex::new(vec![]));
    let mut recs = HashMap::new();
    let mut st = GlobalState::default();
    for (name, spec) in connectors.as_object().unwrap() {
        let feats = spec["features"].as_array().unwrap().iter().map(|f| feature_of(f.as_str().unwrap())).collect();
        let rc = Arc::new(RecConnector {
            name: name.clone(),
            feats,
            fail: spec["fail"].as_bool().unwrap_or(false),
            calls: Mutex::new(vec![]),
            order: order.clone(),
            quiet: Default::default(),
            count: Default::default(),
        });
        recs.insert(name.clone(), rc.clone());
        st.connectors.insert(name.clone(), rc);
    }
    for y in extra_yaml {
        let v: serde_yaml::Value = serde_yaml::from_str(y).map_err(|e| e.to_string())?;
        let mut c = crate::connectors::from_value(&v).map_err(|e| e.to_string())?;
        c.init().await.map_err(|e| e.to_string())?;
        let c: Arc<dyn Connector> = c.into();
        st.connectors.insert(c.name().to_owned(), c);
    }
    let state = Arc::new(st);
    for c in state.connectors.values() {
        c.verify(state.clone()).await.map_err(|e| e.to_string())?;
    }
    Ok(World { state, recs, order })
}

pub fn rules_from_json(rules: &J) -> Result<Vec<Arc<Rule>>, String> {
    // same path as the configuration loader: YAML values -> rules::from_config
    let mut vals = vec![];
    for r in rules.as_array().unwrap() {
        let mut m = serde_yaml::Mapping::new();
        m.insert("target".into(), r["target"].as_str().unwrap().into());
        if let Some(f) = r.get("filter").and_then(|f| f.as_str()) {
            m.insert("filter".into(), f.into());
        }
        vals.push(serde_yaml::Value::Mapping(m));
    }
    crate::rules::from_config(&vals).map_err(|e| e.to_string())
}

pub async fn make_ctx(w: &World, req: &J) -> (ContextRef, Arc<Mutex<Vec<String>>>) {
    let source: std::net::SocketAddr = req["source"].as_str().unwrap().parse().unwrap();
    let ctx = w.state.contexts.create_context(req["listener"].as_str().unwrap().to_owned(), source).await;
    let target: TargetAddress = match req["target"]["kind"].as_str().unwrap() {
        "domain" => TargetAddress::DomainPort(req["target"]["host"].as_str().unwrap().to_owned(), req["target"]["port"].as_u64().unwrap() as u16),
        _ => TargetAddress::SocketAddr(std::net::SocketAddr::new(
            req["target"]["host"].as_str().unwrap().parse().unwrap(),
            req["target"]["port"].as_u64().unwrap() as u16,
        )),
    };
    let cb = RecCallback::default();
    let ev = cb.events.clone();
    ctx.write().await.set_target(target).set_feature(feature_of(req["feature"].as_str().unwrap())).set_callback(cb);
    (ctx, ev)
}

fn rule_stats(rules: &[Arc<Rule>]) -> Vec<J> {
    rules.iter().map(|r| serde_json::to_value(&**r).map(|v| v["stats"].clone()).unwrap_or(J::Null)).collect()
}

async fn one_case(c: &J) -> J {
    let w = match make_world(&c["connectors"], &[]).await {
        Ok(w) => w,
        Err(e) => return json!({"id": c["id"], "load": "world_err", "err": e}),
    };
    let rules = match rules_from_json(&c["rules"]) {
        Ok(r) => r,
        Err(e) => return json!({"id": c["id"], "load": "parse_err", "err": e}),
    };
    if let Err(e) = w.state.set_rules(rules).await {
        return json!({"id": c["id"], "load": "rejected", "err": e.to_string()});
    }
    let mut results = vec![];
    for req in c["reqs"].as_array().unwrap() {
        let before = rule_stats(&w.state.rules().await);
        let (ctx, ev) = make_ctx(&w, req).await;
        let id = ctx.read().await.props().id;
        let n0 = w.order.lock().unwrap().len();
        // the listener's last step, then the dispatcher's: enqueue, dequeue, process_request
        let (tx, mut rx) = tokio::sync::mpsc::channel(4);
        use crate::context::ContextRefOps;
        ctx.clone().enqueue(&tx).await.unwrap();
        let ctx = rx.recv().await.unwrap();
        crate::process_request(ctx.clone(), w.state.clone()).await;
        let after = rule_stats(&w.state.rules().await);
        let invoked: Vec<String> = w.order.lock().unwrap()[n0..].iter().map(|x| x.0.clone()).collect();
        let props = ctx.read().await.props().clone();
        let evals: Vec<u64> = before.iter().zip(after.iter()).map(|(b, a)| a["exec"].as_u64().unwrap_or(0) - b["exec"].as_u64().unwrap_or(0)).collect();
        let hits: Vec<u64> = before.iter().zip(after.iter()).map(|(b, a)| a["hits"].as_u64().unwrap_or(0) - b["hits"].as_u64().unwrap_or(0)).collect();
        let states: Vec<String> = serde_json::to_value(&*props).unwrap()["state"].as_array().unwrap().iter().map(|s| s["state"].as_str().unwrap().to_string()).collect();
        results.push(json!({"ctx": id, "invoked": invoked, "client": *ev.lock().unwrap(), "evals": evals, "hits": hits,
                            "connector": props.connector, "states": states, "error": props.error}));
    }
    json!({"id": c["id"], "load": "ok", "results": results})
}

/// vh route <cases.ndjson>: {id, connectors, rules, reqs:[...]}
pub fn main(args: &[String]) {
    let cases = read_cases(&args[0]);
    silence_panics();
    par_for_each(&cases, 16, |_i, c| {
        let rt = tokio::runtime::Builder::new_current_thread().enable_all().build().unwrap();
        let r = std::panic::catch_unwind(std::panic::AssertUnwindSafe(|| rt.block_on(one_case(c))));
        match r {
            Ok(j) => out(&j),
            Err(e) => out(&json!({"id": c["id"], "load": "panic", "err": panic_text(e)})),
        }
    });
    out(&json!({"summary": true, "cases": cases.len()}));
}

// ------------------------------------------------------------------------------------------
// C17: load balancer laws on the real LoadBalanceConnector
/// vh lb <cases.ndjson>: {id, yaml, members:[..], tasks, per_task, reqs:[req...]} ; records via vtrace lb_select + recording members
pub fn lb_main(args: &[String]) {
    let cases = read_cases(&args[0]);
    silence_panics();
    for c in &cases {
        let rt = tokio::runtime::Builder::new_multi_thread().worker_threads(8).enable_all().build().unwrap();
        let r = std::panic::catch_unwind(std::panic::AssertUnwindSafe(|| rt.block_on(lb_case(c))));
        match r {
            Ok(j) => out(&j),
            Err(e) => out(&json!({"id": c["id"], "load": "panic", "err": panic_text(e)})),
        }
    }
    out(&json!({"summary": true, "cases": cases.len()}));
}

async fn lb_case(c: &J) -> J {
    let mut conns = serde_json::Map::new();
    let failing: Vec<String> = c.get("fail").and_then(|x| x.as_array()).map(|a| a.iter().map(|x| x.as_str().unwrap().to_string()).collect()).unwrap_or_default();
    for m in c["members"].as_array().unwrap() {
        let name = m.as_str().unwrap().to_string();
        let fail = failing.contains(&name);
        conns.insert(name, json!({"features": ["TcpForward"], "fail": fail}));
    }
    // one load balancer, or several (inner ones first) when they are nested
    let yamls: Vec<String> = match c.get("yamls").and_then(|x| x.as_array()) {
        Some(a) => a.iter().map(|x| x.as_str().unwrap().to_string()).collect(),
        None => vec![c["yaml"].as_str().unwrap().to_string()],
    };
    let w = match make_world(&J::Object(conns), &yamls).await {
        Ok(w) => Arc::new(w),
        Err(e) => return json!({"id": c["id"], "load": "rejected", "err": e}),
    };
    let lb = w.state.connectors.get(c["lb"].as_str().unwrap()).unwrap().clone();
    let tasks = c["tasks"].as_u64().unwrap() as usize;
    let per = c["per_task"].as_u64().unwrap() as usize;
    let reqs: Vec<J> = c["reqs"].as_array().unwrap().clone();
    if let Some(n) = c.get("hammer").and_then(|x| x.as_u64()) {
        // many OS threads, one context each, members that only count: nothing but the selection itself is contended
        for r in w.recs.values() {
            r.quiet.store(true, Ordering::Relaxed);
        }
        let mut hs = vec![];
        for t in 0..tasks {
            let (w, lb, req) = (w.clone(), lb.clone(), reqs[t % reqs.len()].clone());
            hs.push(tokio::spawn(async move {
                let (ctx, _ev) = make_ctx(&w, &req).await;
                for k in 0..n {
                    let _ = lb.clone().connect(w.state.clone(), ctx.clone()).await;
                    if k % 1024 == 1023 {
                        tokio::task::yield_now().await;
                    }
                }
            }));
        }
        for h in hs {
            h.await.unwrap();
        }
        let counts: serde_json::Map<String, J> = w.recs.iter().map(|(k, r)| (k.clone(), json!(r.count.load(Ordering::Relaxed)))).collect();
        return json!({"id": c["id"], "load": "ok", "hammer": counts, "total": (tasks as u64) * n});
    }
    let counter = Arc::new(AtomicUsize::new(0));
    let mut handles = vec![];
    for t in 0..tasks {
        let (w, lb, reqs, counter) = (w.clone(), lb.clone(), reqs.clone(), counter.clone());
        handles.push(tokio::spawn(async move {
            let mut recs = vec![];
            for k in 0..per {
                let req = &reqs[(t * per + k) % reqs.len()];
                let (ctx, _ev) = make_ctx(&w, req).await;
                let id = ctx.read().await.props().id;
                counter.fetch_add(1, Ordering::Relaxed);
                let r = lb.clone().connect(w.state.clone(), ctx.clone()).await;
                let recorded = ctx.read().await.props().connector.clone();
                recs.push(json!({"ctx": id, "req": (t * per + k) % reqs.len(), "ok": r.is_ok(), "recorded": recorded}));
                if k % 7 == 0 {
                    tokio::task::yield_now().await;
                }
            }
            recs
        }));
    }
    let mut all = vec![];
    for h in handles {
        all.extend(h.await.unwrap());
    }
    let order: Vec<J> = w.order.lock().unwrap().iter().map(|(n, id)| json!([n, id])).collect();
    json!({"id": c["id"], "load": "ok", "calls": all, "invoked": order})
}

// ------------------------------------------------------------------------------------------
// C15: rule hot reload
async fn probe(w: &World, req: &J) -> J {
    let (ctx, ev) = make_ctx(w, req).await;
    let id = ctx.read().await.props().id;
    let (tx, mut rx) = tokio::sync::mpsc::channel(4);
    use crate::context::ContextRefOps;
    ctx.clone().enqueue(&tx).await.unwrap();
    let ctx = rx.recv().await.unwrap();
    crate::process_request(ctx.clone(), w.state.clone()).await;
    // other tasks may be running requests concurrently: pick this context's invocations by id
    let invoked: Vec<String> = w.order.lock().unwrap().iter().filter(|x| x.1 == id).map(|x| x.0.clone()).collect();
    json!({"invoked": invoked, "client": *ev.lock().unwrap()})
}

/// what POST /rules does with its JSON body (metrics.rs post_rules): Json<Vec<Arc<Rule>>> then set_rules
async fn post_rules_json(w: &World, body: &str) -> Result<(), String> {
    let rules: Vec<Arc<Rule>> = serde_json::from_str(body).map_err(|e| format!("json: {}", e))?;
    w.state.set_rules(rules).await.map_err(|e| e.to_string())
}

/// what GET /rules returns
async fn get_rules_json(w: &World) -> String {
    serde_json::to_string(&*w.state.rules().await).unwrap()
}

async fn rules_case(c: &J) -> J {
    let w = match make_world(&c["connectors"], &[]).await {
        Ok(w) => w,
        Err(e) => return json!({"id": c["id"], "load": "world_err", "err": e}),
    };
    let lists = c["lists"].as_array().unwrap();
    let reqs = c["reqs"].as_array().unwrap();
    let mut steps = vec![];
    for (k, l) in lists.iter().enumerate() {
        let body = serde_json::to_string(l).unwrap();
        let r = if k == 0 {
            // initial load: the configuration path
            match rules_from_json(l) {
                Ok(rs) => w.state.set_rules(rs).await.map_err(|e| e.to_string()),
                Err(e) => Err(e),
            }
        } else {
            post_rules_json(&w, &body).await
        };
        let mut probes = vec![];
        for q in reqs {
            probes.push(probe(&w, q).await);
        }
        // GET /rules, POST it back unchanged: behaviour must not change
        let got = get_rules_json(&w).await;
        let back = post_rules_json(&w, &got).await;
        let mut probes2 = vec![];
        for q in reqs {
            probes2.push(probe(&w, q).await);
        }
        let n_inforce = w.state.rules().await.len();
        steps.push(json!({"ok": r.is_ok(), "err": r.err(), "probes": probes, "roundtrip_ok": back.is_ok(), "roundtrip_err": back.err(),
                          "probes_after_roundtrip": probes2, "n_inforce": n_inforce}));
    }
    json!({"id": c["id"], "load": "ok", "steps": steps})
}

/// vh rules <cases.ndjson>: {id, connectors, lists:[[rule..]..], reqs}
pub fn rules_main(args: &[String]) {
    let cases = read_cases(&args[0]);
    silence_panics();
    par_for_each(&cases, 16, |_i, c| {
        let rt = tokio::runtime::Builder::new_current_thread().enable_all().build().unwrap();
        let r = std::panic::catch_unwind(std::panic::AssertUnwindSafe(|| rt.block_on(rules_case(c))));
        match r {
            Ok(j) => out(&j),
            Err(e) => out(&json!({"id": c["id"], "load": "panic", "err": panic_text(e)})),
        }
    });
    out(&json!({"summary": true, "cases": cases.len()}));
}

/// vh rules-stress <case.json> : K request tasks (slots) decide continuously while one poster replaces the list.
/// Every event gets a sequence number from one atomic counter taken immediately before / after the call.
pub fn rules_stress(args: &[String]) {
    let c: J = serde_json::from_str(&std::fs::read_to_string(&args[0]).unwrap()).unwrap();
    silence_panics();
    let rt = tokio::runtime::Builder::new_multi_thread().worker_threads(6).enable_all().build().unwrap();
    rt.block_on(async {
        let w = Arc::new(make_world(&c["connectors"], &[]).await.unwrap());
        let lists: Vec<J> = c["lists"].as_array().unwrap().clone();
        w.state.set_rules(rules_from_json(&lists[0]).unwrap()).await.unwrap();
        let reqs: Vec<J> = c["reqs"].as_array().unwrap().clone();
        let slots = c["slots"].as_u64().unwrap() as usize;
        let per = c["per_slot"].as_u64().unwrap() as usize;
        let log: Arc<Mutex<Vec<J>>> = Arc::new(Mutex::new(vec![]));
        let stop = Arc::new(std::sync::atomic::AtomicBool::new(false));
        let mut hs = vec![];
        for s in 0..slots {
            let (w, reqs, log) = (w.clone(), reqs.clone(), log.clone());
            hs.push(tokio::spawn(async move {
                for k in 0..per {
                    let qi = (s * 7 + k * 3) % reqs.len();
                    // the log mutex orders the events; begin is logged before the call, end after it returned
                    log.lock().unwrap().push(json!({"ev": "req_begin", "slot": s + 1, "req": qi + 1}));
                    let p = probe(&w, &reqs[qi]).await;
                    let target = p["invoked"].as_array().unwrap().get(0).and_then(|x| x.as_str()).unwrap_or("none").to_string();
                    log.lock().unwrap().push(json!({"ev": "req_end", "slot": s + 1, "req": qi + 1, "invoked": target, "client": p["client"]}));
                    if k % 3 == 0 { tokio::task::yield_now().await; }
                }
            }));
        }
        let (w2, log2, stop2) = (w.clone(), log.clone(), stop.clone());
        let poster = tokio::spawn(async move {
            let mut k = 1usize;
            while !stop2.load(Ordering::SeqCst) && k < lists.len() {
                let body = serde_json::to_string(&lists[k]).unwrap();
                log2.lock().unwrap().push(json!({"ev": "post_begin", "k": k + 1}));
                let r = post_rules_json(&w2, &body).await;
                log2.lock().unwrap().push(json!({"ev": "post_end", "k": k + 1, "ok": r.is_ok()}));
                k += 1;
                tokio::task::yield_now().await;
                tokio::time::sleep(std::time::Duration::from_micros(300)).await;
            }
        });
        for h in hs { h.await.unwrap(); }
        stop.store(true, Ordering::SeqCst);
        poster.await.unwrap();
        for e in log.lock().unwrap().iter() { out(e); }
    });
}

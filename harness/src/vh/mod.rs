//! In-process drivers. Each sub-command reads NDJSON cases (file argument) and writes NDJSON
//! results on stdout; the Python runner compares them with what the TLA+ model predicted.
use serde_json::{json, Value as J};
use std::io::{BufRead, Write};

pub mod authd;
pub mod cfgload;
pub mod codec;
pub mod frag;
pub mod milud;
pub mod route;

pub fn read_cases(path: &str) -> Vec<J> {
    let f = std::fs::File::open(path).unwrap_or_else(|e| panic!("open {}: {}", path, e));
    std::io::BufReader::new(f)
        .lines()
        .map(|l| l.unwrap())
        .filter(|l| !l.trim().is_empty())
        .map(|l| serde_json::from_str(&l).unwrap())
        .collect()
}

pub fn out(v: &J) {
    let so = std::io::stdout();
    let mut so = so.lock();
    let _ = writeln!(so, "{}", v);
}

/// Run `f` over `cases` on `threads` OS threads, preserving no order; every thread calls `f(idx, case)`.
pub fn par_for_each<F>(cases: &[J], threads: usize, f: F)
where
    F: Fn(usize, &J) + Sync,
{
    let next = std::sync::atomic::AtomicUsize::new(0);
    std::thread::scope(|s| {
        for _ in 0..threads.max(1) {
            s.spawn(|| loop {
                let i = next.fetch_add(1, std::sync::atomic::Ordering::Relaxed);
                if i >= cases.len() {
                    break;
                }
                f(i, &cases[i]);
            });
        }
    });
}

pub fn silence_panics() {
    if std::env::var("VH_PANIC_VERBOSE").is_ok() {
        return;
    }
    std::panic::set_hook(Box::new(|_| {}));
}

pub fn panic_text(e: Box<dyn std::any::Any + Send>) -> String {
    if let Some(s) = e.downcast_ref::<&str>() {
        s.to_string()
    } else if let Some(s) = e.downcast_ref::<String>() {
        s.clone()
    } else {
        "panic".to_string()
    }
}

pub fn main() {
    let args: Vec<String> = std::env::args().collect();
    if args.len() < 2 {
        eprintln!("usage: vh <driver> ...");
        std::process::exit(2);
    }
    let rest = &args[2..];
    match args[1].as_str() {
        "frag" => frag::main(rest),
        "frag-grid" => frag::grid(rest),
        "frag-trace" => frag::trace(rest),
        "auth" => authd::main(rest),
        "codec" => codec::main(rest),
        "config" => cfgload::main(rest),
        "route" => route::main(rest),
        "lb" => route::lb_main(rest),
        "rules" => route::rules_main(rest),
        "rules-stress" => route::rules_stress(rest),
        "parse" => milud::parse_main(rest),
        "types" => milud::types_main(rest),
        x => {
            eprintln!("unknown driver {}", x);
            std::process::exit(2);
        }
    }
    let _ = json!(null);
}

//! Codec drivers over a scripted stream: the real readers / writers of src/common/{http,socks,frames}.rs
//! are fed chosen bytes in chosen segments. Used by C12 (segmentation), C03 (destination integrity)
//! and C05 (hostile input).
use super::*;
use crate::common::frames::{frames_from_stream, Frame};
use crate::common::http::{HttpRequest, HttpResponse};
use crate::common::socks::frames::{decode_socks_frame, encode_socks_frame};
use crate::common::socks::{PasswordAuth, SocksRequest, SocksResponse};
use crate::context::TargetAddress;
use bytes::Bytes;
use std::collections::VecDeque;
use std::pin::Pin;
use std::sync::{Arc, Mutex};
use std::task::{Context as TaskCx, Poll};
use tokio::io::{AsyncRead, AsyncWrite, BufReader, ReadBuf};

pub fn hex(b: &[u8]) -> String {
    b.iter().map(|x| format!("{:02x}", x)).collect()
}
pub fn unhex(s: &str) -> Vec<u8> {
    (0..s.len() / 2).map(|i| u8::from_str_radix(&s[2 * i..2 * i + 2], 16).unwrap()).collect()
}

#[derive(Default)]
pub struct IoLog {
    pub written: Vec<u8>,
    pub reads: usize,
    pub pos: usize,
}

/// Input delivered in the given segment sizes (rest in one piece), then EOF. Never pending.
pub struct ScriptIo {
    input: Vec<u8>,
    segs: VecDeque<usize>,
    cur: usize,
    pub log: Arc<Mutex<IoLog>>,
}

impl ScriptIo {
    pub fn new(input: Vec<u8>, segs: &[usize]) -> (Self, Arc<Mutex<IoLog>>) {
        let log = Arc::new(Mutex::new(IoLog::default()));
        let mut segs: VecDeque<usize> = segs.iter().cloned().filter(|x| *x > 0).collect();
        let cur = segs.pop_front().unwrap_or(usize::MAX);
        (Self { input, segs, cur, log: log.clone() }, log)
    }
}

impl AsyncRead for ScriptIo {
    fn poll_read(mut self: Pin<&mut Self>, _cx: &mut TaskCx<'_>, buf: &mut ReadBuf<'_>) -> Poll<std::io::Result<()>> {
        let pos = self.log.lock().unwrap().pos;
        let left = self.input.len() - pos;
        if left == 0 || buf.remaining() == 0 {
            self.log.lock().unwrap().reads += 1;
            return Poll::Ready(Ok(()));
        }
        if self.cur == 0 {
            self.cur = self.segs.pop_front().unwrap_or(usize::MAX);
        }
        let n = left.min(buf.remaining()).min(self.cur);
        buf.put_slice(&self.input[pos..pos + n]);
        if self.cur != usize::MAX {
            self.cur -= n;
        }
        let mut l = self.log.lock().unwrap();
        l.pos += n;
        l.reads += 1;
        Poll::Ready(Ok(()))
    }
}

impl AsyncWrite for ScriptIo {
    fn poll_write(self: Pin<&mut Self>, _cx: &mut TaskCx<'_>, buf: &[u8]) -> Poll<std::io::Result<usize>> {
        self.log.lock().unwrap().written.extend_from_slice(buf);
        Poll::Ready(Ok(buf.len()))
    }
    fn poll_flush(self: Pin<&mut Self>, _cx: &mut TaskCx<'_>) -> Poll<std::io::Result<()>> {
        Poll::Ready(Ok(()))
    }
    fn poll_shutdown(self: Pin<&mut Self>, _cx: &mut TaskCx<'_>) -> Poll<std::io::Result<()>> {
        Poll::Ready(Ok(()))
    }
}

pub fn target_json(t: &TargetAddress) -> J {
    json!({"host": hex(t.host().as_bytes()), "port": t.port(), "type": t.r#type(), "text": t.to_string()})
}

fn frame_json(f: &Frame) -> J {
    json!({"sid": f.session_id, "addr": f.addr.as_ref().map(target_json), "body": hex(&f.body)})
}

fn segs_of(c: &J) -> Vec<usize> {
    c.get("segs").and_then(|s| s.as_array()).map(|a| a.iter().map(|x| x.as_u64().unwrap() as usize).collect()).unwrap_or_default()
}

/// Decode `input` with `codec`. Returns {out, parsed, left, written}
pub async fn decode(codec: &str, input: Vec<u8>, segs: &[usize], cap: usize) -> J {
    let total = input.len();
    let all = input.clone();
    match codec {
        "http_req" | "http_resp" | "socks_req" | "socks_req_auth" | "socks_resp" => {
            let (io, log) = ScriptIo::new(input, segs);
            let mut rd = BufReader::with_capacity(cap, io);
            let (out, parsed): (&str, J) = match codec {
                "http_req" => match HttpRequest::read_from(&mut rd).await {
                    Ok(r) => ("ok", json!({"method": r.method, "resource": hex(r.resource.as_bytes()), "version": r.version, "headers": r.headers})),
                    Err(e) => ("err", json!(e.to_string())),
                },
                "http_resp" => match HttpResponse::read_from(&mut rd).await {
                    Ok(r) => ("ok", json!({"code": r.code, "status": r.status, "version": r.version, "headers": r.headers})),
                    Err(e) => ("err", json!(e.to_string())),
                },
                "socks_req" | "socks_req_auth" => {
                    match SocksRequest::read_from(&mut rd, PasswordAuth { required: codec == "socks_req_auth" }).await {
                        Ok(r) => ("ok", json!({"version": r.version, "cmd": r.cmd, "target": target_json(&r.target),
                                            "auth": r.auth.map(|(u, p)| vec![hex(u.as_bytes()), hex(p.as_bytes())])})),
                        Err(e) => ("err", json!(e.to_string())),
                    }
                }
                _ => match SocksResponse::read_from(&mut rd).await {
                    Ok(r) => ("ok", json!({"version": r.version, "cmd": r.cmd, "target": target_json(&r.target)})),
                    Err(e) => ("err", json!(e.to_string())),
                },
            };
            let buffered = rd.buffer().to_vec();
            let l = log.lock().unwrap();
            let mut left = buffered;
            left.extend_from_slice(&all[l.pos..]);
            json!({"out": out, "parsed": parsed, "left": hex(&left), "written": hex(&l.written), "consumed": total - left.len()})
        }
        "rpfm_stream" => {
            let (io, log) = ScriptIo::new(input, segs);
            let (mut r, _w) = frames_from_stream(0, io);
            let mut frames = vec![];
            let mut out = "eof";
            for _ in 0..10000 {
                match r.read().await {
                    Ok(Some(f)) => frames.push(frame_json(&f)),
                    Ok(None) => break,
                    Err(_) => {
                        out = "err";
                        break;
                    }
                }
            }
            let l = log.lock().unwrap();
            json!({"out": out, "parsed": frames, "left": "", "written": hex(&l.written), "consumed": l.pos})
        }
        "rpfm_buf" => match Frame::from_buffer(Bytes::from(input)) {
            Ok(f) => json!({"out": "ok", "parsed": frame_json(&f)}),
            Err(e) => json!({"out": "err", "parsed": e.to_string()}),
        },
        "socks_udp" => match decode_socks_frame(Frame::from_body(Bytes::from(input))) {
            Ok(f) => json!({"out": "ok", "parsed": frame_json(&f)}),
            Err(e) => json!({"out": "err", "parsed": e.to_string()}),
        },
        x => json!({"out": "unknown codec", "parsed": x}),
    }
}

/// Encode target `t` with the writer of `codec`; scripted peer replies are supplied where the writer is
/// interactive. Returns the bytes put on the wire or the refusal.
pub async fn encode(codec: &str, t: &TargetAddress) -> Result<Vec<u8>, String> {
    match codec {
        "socks5" | "socks4" => {
            let replies: Vec<u8> = if codec == "socks5" { vec![5, 0] } else { vec![] };
            let (io, log) = ScriptIo::new(replies, &[]);
            let mut s = BufReader::new(io);
            let req = SocksRequest { version: if codec == "socks5" { 5 } else { 4 }, cmd: 1, target: t.clone(), auth: None };
            req.write_to(&mut s, PasswordAuth::optional()).await.map_err(|e| e.to_string())?;
            let w = log.lock().unwrap().written.clone();
            Ok(w)
        }
        "http" => {
            let (io, log) = ScriptIo::new(vec![], &[]);
            let mut s = BufReader::new(io);
            // exactly what h11c_connect sends for a TCP tunnel
            HttpRequest::new("CONNECT", t).with_header("Host", t).write_to(&mut s).await.map_err(|e| e.to_string())?;
            let w = log.lock().unwrap().written.clone();
            Ok(w)
        }
        "rpfm" => {
            let mut f = Frame::from_body(Bytes::from_static(b"PAYLOAD"));
            f.addr = Some(t.clone());
            f.session_id = 9;
            let mut w = f.make_header().to_vec();
            w.extend_from_slice(b"PAYLOAD");
            Ok(w)
        }
        "socks_udp" => {
            let mut f = Frame::from_body(Bytes::from_static(b"PAYLOAD"));
            f.addr = Some(t.clone());
            encode_socks_frame(f).map(|b| b.to_vec()).map_err(|e| e.to_string())
        }
        x => Err(format!("unknown codec {}", x)),
    }
}

/// what the next hop parses from `wire` (written by `codec`'s writer): (target, trailing bytes)
pub async fn next_hop(codec: &str, wire: Vec<u8>) -> Result<(J, String), String> {
    let (dc, input) = match codec {
        // the request part of a SOCKS5 client stream follows the 3-byte method offer 05 01 00
        "socks5" | "socks4" => ("socks_req", wire),
        "http" => ("http_req", wire),
        "rpfm" => ("rpfm_buf", wire),
        "socks_udp" => ("socks_udp", wire),
        x => return Err(format!("unknown codec {}", x)),
    };
    let total = input.len();
    let r = decode(dc, input, &[], 8192).await;
    if r["out"] != "ok" {
        return Err(format!("next hop refused: {}", r["parsed"]));
    }
    match dc {
        "socks_req" => Ok((r["parsed"]["target"].clone(), r["left"].as_str().unwrap_or("").to_string())),
        "http_req" => {
            // the next hop takes the destination from the request line (h11c_handshake parses `resource`)
            let res = unhex(r["parsed"]["resource"].as_str().unwrap());
            let res = String::from_utf8_lossy(&res).to_string();
            let t: Result<TargetAddress, _> = res.parse();
            match t {
                Ok(t) => {
                    let mut tj = target_json(&t);
                    tj["headers"] = r["parsed"]["headers"].clone();
                    tj["method"] = r["parsed"]["method"].clone();
                    Ok((tj, r["left"].as_str().unwrap_or("").to_string()))
                }
                Err(_) => Err("next hop refused: bad target".to_string()),
            }
        }
        _ => {
            let p = &r["parsed"];
            let body = p["body"].as_str().unwrap_or("");
            let extra = if body == hex(b"PAYLOAD") { "".to_string() } else { format!("body:{}", body) };
            let _ = total;
            match p.get("addr") {
                Some(a) if !a.is_null() => Ok((a.clone(), extra)),
                _ => Err("next hop: no address".to_string()),
            }
        }
    }
}

fn run_case(rt: &tokio::runtime::Runtime, c: &J) -> J {
    let op = c["op"].as_str().unwrap_or("decode");
    let id = c["id"].clone();
    let r = catch_unwind_silent(|| {
        rt.block_on(async {
            match op {
                "decode" => {
                    let input = unhex(c["hex"].as_str().unwrap());
                    let cap = c.get("cap").and_then(|x| x.as_u64()).unwrap_or(8192) as usize;
                    decode(c["codec"].as_str().unwrap(), input, &segs_of(c), cap).await
                }
                // C03: inbound decode -> TargetAddress -> outbound encode -> next hop decode
                "hop" => {
                    let input = unhex(c["hex"].as_str().unwrap());
                    let first = decode(c["in"].as_str().unwrap(), input, &[], 8192).await;
                    if first["out"] != "ok" {
                        return json!({"stage": "refused_in", "why": first["parsed"]});
                    }
                    let tj = if c["in"] == "http_req" {
                        // h11c_handshake: target = request.resource.parse()
                        let res = unhex(first["parsed"]["resource"].as_str().unwrap());
                        match String::from_utf8_lossy(&res).parse::<TargetAddress>() {
                            Ok(t) => t,
                            Err(_) => return json!({"stage": "refused_in", "why": "bad target"}),
                        }
                    } else {
                        let p = if first["parsed"].get("target").is_some() { &first["parsed"]["target"] } else { &first["parsed"]["addr"] };
                        if p.is_null() {
                            return json!({"stage": "refused_in", "why": "no address"});
                        }
                        let host = String::from_utf8(unhex(p["host"].as_str().unwrap())).unwrap();
                        let port = p["port"].as_u64().unwrap() as u16;
                        match p["type"].as_str().unwrap() {
                            "domain" => TargetAddress::DomainPort(host, port),
                            _ => TargetAddress::SocketAddr(std::net::SocketAddr::new(host.parse().unwrap(), port)),
                        }
                    };
                    let t1 = target_json(&tj);
                    let wire = match encode(c["out"].as_str().unwrap(), &tj).await {
                        Ok(w) => w,
                        Err(e) => return json!({"stage": "refused_out", "t1": t1, "why": e}),
                    };
                    // a SOCKS5 client stream starts with the method offer; the next hop's reader consumes it itself
                    match next_hop(c["out"].as_str().unwrap(), wire.clone()).await {
                        Ok((t2, extra)) => json!({"stage": "forwarded", "t1": t1, "wire": hex(&wire), "t2": t2, "extra": extra}),
                        Err(e) => json!({"stage": "refused_next", "t1": t1, "wire": hex(&wire), "why": e}),
                    }
                }
                // connector side of an HTTP / QUIC hop: h11c_connect reads the upstream's reply (incl. Session-Id for UDP)
                "h11c" => {
                    let input = unhex(c["hex"].as_str().unwrap());
                    let gs: Arc<crate::context::GlobalState> = Default::default();
                    let ctx = gs.create_context("l".into(), "127.0.0.1:1".parse().unwrap()).await;
                    ctx.write().await.set_target(TargetAddress::DomainPort("ex.com".into(), 53));
                    if c["udp"].as_bool().unwrap_or(false) {
                        ctx.write().await.set_feature(crate::context::Feature::UdpForward);
                    }
                    let (io, _log) = ScriptIo::new(input, &segs_of(c));
                    let server = crate::context::make_buffered_stream(io);
                    let r = crate::common::h11c::h11c_connect(server, ctx, "127.0.0.1:2".parse().unwrap(), "127.0.0.1:3".parse().unwrap(),
                        "inline", |_| async { panic!("not used") }).await;
                    match r {
                        Ok(()) => json!({"out": "ok"}),
                        Err(e) => json!({"out": "err", "parsed": e.to_string()}),
                    }
                }
                // datagram side of a QUIC hop: a sequence of datagrams into the reassembler
                "frag_seq" => {
                    let mut f: crate::common::fragment::Fragments<Frame> = crate::common::fragment::Fragments::new(std::time::Duration::from_secs(5));
                    let mut n = 0;
                    for d in c["datagrams"].as_array().unwrap() {
                        if f.reassemble(Bytes::from(unhex(d.as_str().unwrap()))).is_some() {
                            n += 1;
                        }
                        f.timer();
                    }
                    json!({"out": "ok", "parsed": n})
                }
                x => json!({"out": format!("unknown op {}", x)}),
            }
        })
    });
    let mut o = match r {
        Ok(j) => j,
        Err(p) => json!({"out": "panic", "stage": "panic", "parsed": p}),
    };
    o["id"] = id;
    o
}

fn catch_unwind_silent<T>(f: impl FnOnce() -> T) -> Result<T, String> {
    std::panic::catch_unwind(std::panic::AssertUnwindSafe(f)).map_err(panic_text)
}

/// vh codec <cases.ndjson>
pub fn main(args: &[String]) {
    let cases = read_cases(&args[0]);
    silence_panics();
    let busy: Vec<std::sync::atomic::AtomicI64> = (0..16).map(|_| std::sync::atomic::AtomicI64::new(-1)).collect();
    let stamp: Vec<std::sync::atomic::AtomicU64> = (0..16).map(|_| std::sync::atomic::AtomicU64::new(0)).collect();
    let done = std::sync::atomic::AtomicBool::new(false);
    let next = std::sync::atomic::AtomicUsize::new(0);
    let t0 = std::time::Instant::now();
    use std::sync::atomic::Ordering::SeqCst;
    std::thread::scope(|s| {
        for w in 0..16 {
            let (busy, stamp, next, cases) = (&busy, &stamp, &next, &cases);
            s.spawn(move || {
                let rt = tokio::runtime::Builder::new_current_thread().enable_all().build().unwrap();
                loop {
                    let i = next.fetch_add(1, SeqCst);
                    if i >= cases.len() {
                        break;
                    }
                    stamp[w].store(t0.elapsed().as_millis() as u64, SeqCst);
                    busy[w].store(i as i64, SeqCst);
                    let o = run_case(&rt, &cases[i]);
                    busy[w].store(-1, SeqCst);
                    out(&o);
                }
            });
        }
        // watchdog: a decoder that spins on one input for 10 s is a hang (C05 "wedge")
        let (busy, stamp, done, next, cases) = (&busy, &stamp, &done, &next, &cases);
        s.spawn(move || loop {
            std::thread::sleep(std::time::Duration::from_millis(200));
            if done.load(SeqCst) {
                break;
            }
            let now = t0.elapsed().as_millis() as u64;
            for w in 0..16 {
                let i = busy[w].load(SeqCst);
                if i >= 0 && now.saturating_sub(stamp[w].load(SeqCst)) > 10_000 {
                    out(&json!({"id": cases[i as usize]["id"], "out": "hang", "stage": "hang"}));
                    std::process::exit(3);
                }
            }
            if next.load(SeqCst) >= cases.len() && (0..16).all(|w| busy[w].load(SeqCst) < 0) {
                break;
            }
        });
        let _ = done;
    });
    out(&json!({"summary": true, "cases": cases.len()}));
}

//! C09 (parser vs documented grammar) and C08 (type soundness) drivers over the real milu crate.
use super::*;
use ::milu::parser::parse;
use std::panic::{catch_unwind, AssertUnwindSafe};

fn parse_disp(text: &str) -> Result<(String, ::milu::script::Value), String> {
    match catch_unwind(AssertUnwindSafe(|| parse(text))) {
        Err(e) => Err(format!("PANIC: {}", panic_text(e))),
        Ok(Err(e)) => Err(format!("{}", e).chars().take(160).collect()),
        Ok(Ok(v)) => Ok((format!("{}", v), v)),
    }
}

/// vh parse <cases.ndjson>: each case {id, texts:[..], sexpr:".."}: every text must parse, print as sexpr,
/// and all parsed values must be equal.
pub fn parse_main(args: &[String]) {
    let cases = read_cases(&args[0]);
    silence_panics();
    let fails = std::sync::atomic::AtomicUsize::new(0);
    let texts_n = std::sync::atomic::AtomicUsize::new(0);
    par_for_each(&cases, 16, |i, c| {
        let sexpr = c["sexpr"].as_str().unwrap();
        let mut first: Option<::milu::script::Value> = None;
        for (k, t) in c["texts"].as_array().unwrap().iter().enumerate() {
            let text = t.as_str().unwrap();
            texts_n.fetch_add(1, std::sync::atomic::Ordering::Relaxed);
            let bad = match parse_disp(text) {
                Err(e) => Some(json!({"what": if e.starts_with("PANIC") {"panic"} else {"reject"}, "err": e})),
                Ok((d, v)) => {
                    if d != sexpr {
                        Some(json!({"what": "tree", "got": d}))
                    } else if first.as_ref().map(|f| *f != v).unwrap_or(false) {
                        Some(json!({"what": "unequal"}))
                    } else {
                        if first.is_none() { first = Some(v); }
                        None
                    }
                }
            };
            if let Some(mut b) = bad {
                b["case"] = json!(i);
                b["k"] = json!(k);
                b["text"] = json!(text);
                b["sexpr"] = json!(sexpr);
                b["id"] = c["id"].clone();
                if fails.fetch_add(1, std::sync::atomic::Ordering::Relaxed) < 20000 {
                    out(&b);
                }
            }
        }
    });
    out(&json!({"summary": true, "cases": cases.len(), "texts": texts_n.into_inner(), "fails": fails.into_inner()}));
}

// ------------------------------------------------------------------------------------------
// C08: checker vs evaluator on TLC-generated expressions
use crate::context::{ContextProps, Feature, TargetAddress};
use crate::rules::script_ext::create_context;
use ::milu::script::{Evaluatable, ScriptContextRef, Type, Value};
use std::sync::Arc;

fn type_json(t: &Type) -> J {
    match t {
        Type::String => json!({"k": "str", "e": []}),
        Type::Integer => json!({"k": "int", "e": []}),
        Type::Boolean => json!({"k": "bool", "e": []}),
        Type::Array(a) => json!({"k": "arr", "e": [type_json(a)]}),
        Type::Tuple(ts) => json!({"k": "tup", "e": ts.iter().map(type_json).collect::<Vec<_>>()}),
        Type::NativeObject(_) => json!({"k": "native", "e": []}),
        Type::Any => json!({"k": "any", "e": []}),
    }
}

/// force a value: arrays / tuples hold unevaluated members (the language is lazy)
fn value_json(v: &Value, ctx: &ScriptContextRef, depth: usize) -> J {
    if depth > 6 {
        return json!({"t": "deep"});
    }
    match v {
        Value::Integer(i) => json!({"t": "int", "v": i}),
        Value::Boolean(b) => json!({"t": "bool", "v": b}),
        Value::String(s) => json!({"t": "str", "v": s}),
        Value::Array(a) | Value::Tuple(a) => {
            let items: Vec<J> = a
                .iter()
                .map(|m| match m.real_value_of(ctx.clone()) {
                    Ok(x) => value_json(&x, ctx, depth + 1),
                    Err(e) => json!({"t": "err", "v": format!("{}", e)}),
                })
                .collect();
            json!({"t": if matches!(v, Value::Array(_)) {"arr"} else {"tup"}, "v": items})
        }
        Value::Identifier(s) => json!({"t": "ident", "v": s}),
        Value::OpCall(_) => json!({"t": "opcall"}),
        Value::NativeObject(_) => json!({"t": "native"}),
    }
}

fn env_props(i: usize) -> Arc<ContextProps> {
    let mut p = ContextProps::default();
    match i {
        0 => {
            p.listener = "L1".into();
            p.source = "127.0.0.1:1000".parse().unwrap();
            p.target = TargetAddress::DomainPort("ex.com".into(), 80);
            p.request_feature = Feature::TcpForward;
        }
        1 => {
            p.listener = "".into();
            p.source = "[::1]:65535".parse().unwrap();
            p.target = "10.0.0.1:0".parse().unwrap();
            p.request_feature = Feature::UdpForward;
        }
        _ => {
            p.listener = "7".into();
            p.source = "10.1.2.3:1".parse().unwrap();
            p.target = "[2001:db8::1]:65535".parse().unwrap();
            p.request_feature = Feature::TcpForward;
        }
    }
    Arc::new(p)
}

fn guarded<T>(f: impl FnOnce() -> Result<T, easy_error::Error>) -> Result<T, (bool, String)> {
    match catch_unwind(AssertUnwindSafe(f)) {
        Err(e) => Err((true, panic_text(e))),
        Ok(Err(e)) => Err((false, format!("{}", e).chars().take(120).collect())),
        Ok(Ok(v)) => Ok(v),
    }
}

fn res_json<T>(r: Result<T, (bool, String)>, f: impl FnOnce(T) -> J) -> J {
    match r {
        Ok(v) => json!({"ok": f(v)}),
        Err((true, m)) => json!({"panic": m}),
        Err((false, m)) => json!({"err": m}),
    }
}

/// vh types <cases.ndjson>: each case {id, txt}; output {id, parse, ty, vals[3], filter?}
pub fn types_main(args: &[String]) {
    let cases = read_cases(&args[0]);
    silence_panics();
    par_for_each(&cases, 16, |_i, c| {
        let text = c["txt"].as_str().unwrap();
        let mut o = json!({"id": c["id"]});
        let parsed = match catch_unwind(AssertUnwindSafe(|| parse(text))) {
            Err(e) => { o["parse"] = json!({"panic": panic_text(e)}); out(&o); return; }
            Ok(Err(_)) => { o["parse"] = json!("err"); out(&o); return; }
            Ok(Ok(v)) => v,
        };
        o["parse"] = json!("ok");
        // load time: the checker as used by Filter::validate / LoadBalance::init / ScriptFormater::new
        let lctx: ScriptContextRef = create_context(Default::default()).into();
        let ty = guarded(|| parsed.real_type_of(lctx.clone()));
        let accepted = ty.is_ok();
        o["ty"] = res_json(ty, |t| type_json(&t));
        let mut vals = vec![];
        if accepted {
            for i in 0..3 {
                let rctx: ScriptContextRef = create_context(env_props(i)).into();
                let r = guarded(|| parsed.real_value_of(rctx.clone()));
                vals.push(match r {
                    Ok(v) => {
                        let forced = catch_unwind(AssertUnwindSafe(|| value_json(&v, &rctx, 0)));
                        match forced { Ok(j) => json!({"ok": j}), Err(e) => json!({"panic": panic_text(e)}) }
                    }
                    Err((true, m)) => json!({"panic": m}),
                    Err((false, m)) => json!({"err": m}),
                });
            }
        }
        o["vals"] = J::Array(vals);
        out(&o);
    });
}

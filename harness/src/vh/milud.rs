//! C09 (parser vs documented grammar) and C08 (type soundness) drivers over the real milu crate.
use super::*;
use ::milu::parser::parse;
use std::panic::{catch_unwind, AssertUnwindSafe};

fn parse_disp(text: &str) -> Result<(String, ::milu::script::Value), String> {
    match catch_unwind(AssertUnwindSafe(|| parse(text))) {
        Err(e) => Err(format!("PANIC: {}", panic_text(e))),
        Ok(Err(e)) => Err(format!("{}", e).chars().take(160).collect()),
        Ok(Ok(v)) => Ok((format!("{}", v), v)),
    }
}

/// vh parse <cases.ndjson>: each case {id, texts:[..], sexpr:".."}: every text must parse, print as sexpr,
/// and all parsed values must be equal.
pub fn parse_main(args: &[String]) {
    let cases = read_cases(&args[0]);
    silence_panics();
    let fails = std::sync::atomic::AtomicUsize::new(0);
    let texts_n = std::sync::atomic::AtomicUsize::new(0);
    par_for_each(&cases, 16, |i, c| {
        let sexpr = c["sexpr"].as_str().unwrap();
        let mut first: Option<::milu::script::Value> = None;
        for (k, t) in c["texts"].as_array().unwrap().iter().enumerate() {
            let text = t.as_str().unwrap();
            texts_n.fetch_add(1, std::sync::atomic::Ordering::Relaxed);
            let bad = match parse_disp(text) {
                Err(e) => Some(json!({"what": if e.starts_with("PANIC") {"panic"} else {"reject"}, "err": e})),
                Ok((d, v)) => {
                    if d != sexpr {
                        Some(json!({"what": "tree", "got": d}))
                    } else if first.as_ref().map(|f| *f != v).unwrap_or(false) {
                        Some(json!({"what": "unequal"}))
                    } else {
                        if first.is_none() { first = Some(v); }
                        None
                    }
                }
            };
            if let Some(mut b) = bad {
                b["case"] = json!(i);
                b["k"] = json!(k);
                b["text"] = json!(text);
                b["sexpr"] = json!(sexpr);
                b["id"] = c["id"].clone();
                if fails.fetch_add(1, std::sync::atomic::Ordering::Relaxed) < 20000 {
                    out(&b);
                }
            }
        }
    });
    out(&json!({"summary": true, "cases": cases.len(), "texts": texts_n.into_inner(), "fails": fails.into_inner()}));
}

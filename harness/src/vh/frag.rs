//! C11 / C05(datagram half): replay TLC behaviours of spec/Frag.tla on the real
//! `Fragments<Frame>` + `Frame` + `make_fragments`.
use super::*;
use crate::common::fragment::Fragments;
use crate::common::frames::Frame;
use bytes::{BufMut, Bytes, BytesMut};
use std::collections::HashMap;
use std::panic::{catch_unwind, AssertUnwindSafe};
use std::time::Duration;

fn keyed(name: &str, i: usize) -> u8 {
    let h = name.bytes().fold(17u32, |a, b| a.wrapping_mul(31).wrapping_add(b as u32));
    (h.wrapping_mul(2654435761).wrapping_add((i as u32).wrapping_mul(40503)) >> 7) as u8
}

pub fn make_frame(name: &str, body_len: usize) -> Frame {
    let mut body = BytesMut::with_capacity(body_len);
    for i in 0..body_len {
        body.put_u8(keyed(name, i));
    }
    let mut f = Frame::from_body(body.freeze());
    f.session_id = name.bytes().fold(7u32, |a, b| a.wrapping_mul(131).wrapping_add(b as u32));
    f.addr = Some("1.2.3.4:5".parse().unwrap());
    f
}

fn same(a: &Frame, b: &Frame) -> bool {
    a.addr == b.addr && a.session_id == b.session_id && a.body == b.body
}

const HDR: usize = 20; // 12 + ipv4 attr 8

/// body length such that the serialized frame splits into exactly n fragments at `mtu`
fn body_for(n: usize, mtu: usize, r: u64) -> Option<usize> {
    let size = mtu - 4;
    let lo = (n - 1) * size + 1;
    let hi = n * size;
    let lo = lo.max(HDR);
    if hi < lo {
        return None;
    }
    let total = lo + (r as usize) % (hi - lo + 1);
    let body = total - HDR;
    if body > 65535 {
        None
    } else {
        Some(body)
    }
}

fn rnd(seed: u64, a: u64, b: u64) -> u64 {
    let mut x = seed ^ a.wrapping_mul(0x9E3779B97F4A7C15) ^ b.wrapping_mul(0xC2B2AE3D27D4EB4F);
    x ^= x >> 33;
    x = x.wrapping_mul(0xff51afd7ed558ccd);
    x ^= x >> 33;
    x
}

fn junk_bytes(kind: &str, id: u64, total: u64, seq: u64, r: u64) -> Bytes {
    if kind == "short" {
        let n = (r % 4) as usize;
        return Bytes::from(vec![0xEEu8; n]);
    }
    let mut b = BytesMut::new();
    b.put_u16(id as u16);
    b.put_u8(total as u8);
    b.put_u8(seq as u8);
    let n = 1 + (r % 40) as usize;
    for i in 0..n {
        b.put_u8(0xA0 ^ (i as u8));
    }
    b.freeze()
}

struct Replay {
    frags: Fragments<Frame>,
    frames: HashMap<String, (Frame, Vec<Bytes>)>,
    clock: u64,
}

fn run_case(idx: usize, case: &J, seed: u64, timeout_ticks: u64) -> Option<J> {
    let steps = case["h"].as_array().unwrap();
    let mtus = [24usize, 25, 31, 64, 1200, 1472];
    let mtu = mtus[(rnd(seed, idx as u64, 1) % mtus.len() as u64) as usize];
    crate::vtrace::set_skew(Duration::ZERO);
    let mut st = Replay {
        frags: Fragments::new(Duration::from_secs(timeout_ticks)),
        frames: HashMap::new(),
        clock: 0,
    };
    let mut junk_seen: Vec<String> = vec![];
    for (i, s) in steps.iter().enumerate() {
        let op = s["op"].as_str().unwrap();
        let fail = |what: &str, exp: J, obs: J, junk_seen: &Vec<String>| {
            let mut js = junk_seen.clone();
            js.sort();
            js.dedup();
            Some(json!({"case": idx, "step": i, "op": op, "kind": s.get("kind").cloned().unwrap_or(J::Null),
                        "what": what, "expected": exp, "observed": obs, "mtu": mtu, "after": js, "h": case["h"]}))
        };
        match op {
            "send" => {
                let name = s["f"].as_str().unwrap();
                let n = s["n"].as_u64().unwrap() as usize;
                let id = s["id"].as_u64().unwrap() as u16;
                let body = match body_for(n, mtu, rnd(seed, idx as u64, i as u64 + 10)) {
                    Some(b) => b,
                    None => return None, // this (n, mtu) cannot be realised; skip case
                };
                let frame = make_frame(name, body);
                let copy = make_frame(name, body);
                let mut next = id;
                let r = catch_unwind(AssertUnwindSafe(|| {
                    Fragments::<Frame>::make_fragments(mtu, &mut next, frame).collect::<Vec<Bytes>>()
                }));
                let frs = match r {
                    Ok(v) => v,
                    Err(e) => return fail("make_panic", json!(n), json!(panic_text(e)), &junk_seen),
                };
                let mut ok = frs.len() == n;
                for (k, fr) in frs.iter().enumerate() {
                    ok = ok
                        && fr.len() >= 4
                        && fr.len() <= mtu
                        && u16::from_be_bytes([fr[0], fr[1]]) == id
                        && fr[2] as usize == n
                        && fr[3] as usize == k;
                }
                if !ok {
                    return fail("make", json!(n), json!(frs.iter().map(|f| f[..4.min(f.len())].to_vec()).collect::<Vec<_>>()), &junk_seen);
                }
                st.frames.insert(name.to_string(), (copy, frs));
            }
            "reasm" => {
                let kind = s["kind"].as_str().unwrap();
                let bytes = if kind == "good" {
                    let f = s["pl"][0].as_str().unwrap();
                    let k = s["pl"][1].as_u64().unwrap() as usize;
                    st.frames[f].1[k].clone()
                } else {
                    junk_seen.push(kind.to_string());
                    junk_bytes(kind, s["id"].as_u64().unwrap(), s["total"].as_u64().unwrap(),
                               s["seq"].as_u64().unwrap(), rnd(seed, idx as u64, i as u64 + 100))
                };
                let frags = &mut st.frags;
                let r = catch_unwind(AssertUnwindSafe(|| frags.reassemble(bytes)));
                let exp = s["ret"].as_str().unwrap();
                match r {
                    Err(e) => return fail("panic", json!(exp), json!(panic_text(e)), &junk_seen),
                    Ok(ret) => {
                        let obs = match &ret {
                            None => "none".to_string(),
                            Some(fr) => st
                                .frames
                                .iter()
                                .find(|(_, (f, _))| same(f, fr))
                                .map(|(n, _)| n.clone())
                                .unwrap_or_else(|| "garbage".to_string()),
                        };
                        if obs != exp {
                            return fail("ret", json!(exp), json!(obs), &junk_seen);
                        }
                        let q = st.frags.queue_len() as u64;
                        if q != s["qlen"].as_u64().unwrap() {
                            return fail("qlen", s["qlen"].clone(), json!(q), &junk_seen);
                        }
                    }
                }
            }
            "tick" => {
                st.clock += 1;
                crate::vtrace::set_skew(Duration::from_millis(st.clock * 1000 - 500));
                let frags = &mut st.frags;
                let r = catch_unwind(AssertUnwindSafe(|| frags.timer()));
                crate::vtrace::set_skew(Duration::from_millis(st.clock * 1000));
                if let Err(e) = r {
                    return fail("panic", J::Null, json!(panic_text(e)), &junk_seen);
                }
                let q = st.frags.queue_len() as u64;
                if q != s["qlen"].as_u64().unwrap() {
                    return fail("qlen", s["qlen"].clone(), json!(q), &junk_seen);
                }
            }
            _ => panic!("unknown op {}", op),
        }
    }
    None
}

/// vh frag <cases.ndjson> <seed> <timeout_ticks>
pub fn main(args: &[String]) {
    let cases = read_cases(&args[0]);
    let seed: u64 = args.get(1).and_then(|s| s.parse().ok()).unwrap_or(1);
    let tt: u64 = args.get(2).and_then(|s| s.parse().ok()).unwrap_or(2);
    silence_panics();
    let fails = std::sync::Mutex::new(0usize);
    let steps = std::sync::atomic::AtomicUsize::new(0);
    par_for_each(&cases, 16, |i, c| {
        steps.fetch_add(c["h"].as_array().unwrap().len(), std::sync::atomic::Ordering::Relaxed);
        if let Some(f) = run_case(i, c, seed, tt) {
            let mut n = fails.lock().unwrap();
            *n += 1;
            if *n <= 5000 {
                out(&f);
            }
        }
    });
    out(&json!({"summary": true, "cases": cases.len(), "steps": steps.into_inner(), "fails": *fails.lock().unwrap()}));
}

/// vh frag-grid <seed> <thorough:0|1>: size grid, permutations and duplications on real frames.
/// Emits one record per (len, mtu) with the observed fragment count so that the runner can compare
/// with the model's Fragmentize(len, mtu); and checks in-order/reverse/rotated/duplicated delivery.
pub fn grid(args: &[String]) {
    let seed: u64 = args.get(0).and_then(|s| s.parse().ok()).unwrap_or(1);
    let thorough = args.get(1).map(|s| s == "1").unwrap_or(false);
    silence_panics();
    let mtus: Vec<usize> = if thorough {
        vec![5, 6, 7, 8, 16, 17, 24, 100, 516, 1200, 1201, 1350, 1472, 9000, 65535]
    } else {
        vec![5, 6, 16, 24, 516, 1200, 1472, 65535]
    };
    let mut lens: Vec<usize> = vec![0, 1, 2, 3, 4, 5, 11, 12, 100, 495, 496, 497, 511, 512, 513, 1175, 1176, 1177,
        1195, 1196, 1197, 2391, 2392, 2393, 9000, 30000, 65534, 65535];
    let n_rand = if thorough { 300 } else { 40 };
    for k in 0..n_rand {
        lens.push((rnd(seed, k, 77) % 65536) as usize);
    }
    let mut cases = vec![];
    for &m in &mtus {
        for &l in &lens {
            cases.push(json!({"mtu": m, "body": l}));
        }
    }
    par_for_each(&cases, 16, |i, c| {
        let mtu = c["mtu"].as_u64().unwrap() as usize;
        let body = c["body"].as_u64().unwrap() as usize;
        let name = format!("G{}", i);
        let frame = make_frame(&name, body);
        let orig = make_frame(&name, body);
        let total_len = HDR + body;
        let mut id = (rnd(seed, i as u64, 5) % 65536) as u16;
        let id0 = id;
        let r = catch_unwind(AssertUnwindSafe(|| {
            Fragments::<Frame>::make_fragments(mtu, &mut id, frame).collect::<Vec<Bytes>>()
        }));
        let mut rec = json!({"grid": true, "mtu": mtu, "len": total_len, "id": id0});
        match r {
            Err(e) => {
                rec["make"] = json!("panic");
                rec["text"] = json!(panic_text(e));
            }
            Ok(frs) => {
                rec["make"] = json!("ok");
                rec["count"] = json!(frs.len());
                rec["next_id"] = json!(id);
                let mut hdr_ok = true;
                let mut cat = Vec::new();
                for (k, f) in frs.iter().enumerate() {
                    hdr_ok = hdr_ok && f.len() > 4 && f.len() <= mtu
                        && u16::from_be_bytes([f[0], f[1]]) == id0
                        && f[2] as usize == frs.len() && f[3] as usize == k;
                    if f.len() >= 4 { cat.extend_from_slice(&f[4..]); }
                }
                rec["hdr_ok"] = json!(hdr_ok);
                rec["payload_ok"] = json!(cat.len() == total_len);
                // delivery orders: in-order, reverse, rotated, each with every fragment duplicated
                let n = frs.len();
                let mut orders: Vec<(&str, Vec<usize>)> = vec![];
                orders.push(("inorder", (0..n).collect()));
                orders.push(("reverse", (0..n).rev().collect()));
                orders.push(("rotate", (0..n).map(|k| (k + n / 2) % n.max(1)).collect()));
                let mut dup: Vec<usize> = vec![];
                for k in 0..n { dup.push(k); dup.push(k); }
                if !dup.is_empty() { dup.pop(); } // last fragment only once, so exactly one completion
                orders.push(("dup", dup));
                let mut shuf: Vec<usize> = (0..n).collect();
                for k in (1..n).rev() { let j = (rnd(seed, i as u64, k as u64) % (k as u64 + 1)) as usize; shuf.swap(k, j); }
                orders.push(("shuffle", shuf));
                let mut res = serde_json::Map::new();
                for (oname, ord) in orders {
                    let mut fr: Fragments<Frame> = Fragments::new(Duration::from_secs(3600));
                    let out = catch_unwind(AssertUnwindSafe(|| {
                        let mut got = 0usize; let mut good = 0usize;
                        for &k in &ord {
                            if let Some(f) = fr.reassemble(frs[k].clone()) { got += 1; if same(&f, &orig) { good += 1; } }
                        }
                        (got, good, fr.queue_len())
                    }));
                    res.insert(oname.to_string(), match out { Ok((g, ok, q)) => json!([g, ok, q]), Err(e) => json!(panic_text(e)) });
                }
                rec["orders"] = J::Object(res);
            }
        }
        out(&rec);
    });
    // id wrap: 70 000 consecutive small frames through one id counter and one reassembler
    let n_wrap = 70000usize;
    let r = catch_unwind(AssertUnwindSafe(|| {
        let mut id: u16 = 65000;
        let mut fr: Fragments<Frame> = Fragments::new(Duration::from_secs(3600));
        let mut okc = 0usize;
        for k in 0..n_wrap {
            let name = format!("W{}", k % 7);
            let body = 30 + (k % 3) * 20;
            let orig = make_frame(&name, body);
            let frs: Vec<Bytes> = Fragments::<Frame>::make_fragments(24, &mut id, make_frame(&name, body)).collect();
            let mut got = None;
            for f in frs.into_iter().rev() { if let Some(x) = fr.reassemble(f) { got = Some(x); } }
            if let Some(g) = got { if same(&g, &orig) { okc += 1; } }
        }
        (okc, fr.queue_len(), id)
    }));
    out(&match r {
        Ok((okc, q, id)) => json!({"wrap": true, "frames": n_wrap, "ok": okc, "qlen": q, "id": id}),
        Err(e) => json!({"wrap": true, "frames": n_wrap, "panic": panic_text(e)}),
    });
}

/// vh frag-trace <seed> <n_traces> <len>: impl -> spec. Random long call sequences on the real object
/// (3 frames in flight over 3 ids, junk, ticks); every call is logged with its observed result.
pub fn trace(args: &[String]) {
    let seed: u64 = args.get(0).and_then(|s| s.parse().ok()).unwrap_or(1);
    let n: u64 = args.get(1).and_then(|s| s.parse().ok()).unwrap_or(10);
    let len: u64 = args.get(2).and_then(|s| s.parse().ok()).unwrap_or(200);
    silence_panics();
    let names = ["A", "B", "C", "U"];
    let nfrag = [2usize, 3, 2, 1];
    let wid = [1u16, 2, 1, 4];
    for t in 0..n {
        crate::vtrace::set_skew(Duration::ZERO);
        let mut fr: Fragments<Frame> = Fragments::new(Duration::from_secs(2));
        let mtu = 24usize;
        out(&json!({"ev": "reset", "t": t}));
        let mut clock = 0u64;
        let mut sent: HashMap<usize, (Frame, Vec<Bytes>)> = HashMap::new();
        let mut retired: Vec<usize> = vec![];
        for k in 0..len {
            let r = rnd(seed, t, k);
            let choice = r % 10;
            if choice < 6 {
                // deliver a fragment; the frame is sent first if it has not been (premises of the
                // spec: the receiver holds nothing, and earlier users of the id are retired)
                let fi = ((r >> 8) % 4) as usize;
                if retired.contains(&fi) { continue; }
                if !sent.contains_key(&fi) {
                    if fr.queue_len() != 0 { continue; }
                    let body = body_for(nfrag[fi], mtu, r >> 16).unwrap();
                    let mut id = wid[fi];
                    let frs: Vec<Bytes> = Fragments::<Frame>::make_fragments(mtu, &mut id, make_frame(names[fi], body)).collect();
                    for g in 0..4 { if g != fi && wid[g] == wid[fi] && sent.contains_key(&g) { retired.push(g); } }
                    sent.insert(fi, (make_frame(names[fi], body), frs));
                    out(&json!({"ev": "send", "f": names[fi], "id": wid[fi], "n": nfrag[fi]}));
                }
                let s = ((r >> 24) as usize) % nfrag[fi];
                let bytes = sent[&fi].1[s].clone();
                let res = catch_unwind(AssertUnwindSafe(|| fr.reassemble(bytes)));
                let ret = match res {
                    Err(_) => "panic".to_string(),
                    Ok(None) => "none".to_string(),
                    Ok(Some(x)) => (0..4).find(|i| sent.get(i).map(|(f, _)| same(f, &x)).unwrap_or(false))
                        .map(|i| names[i].to_string()).unwrap_or("garbage".into()),
                };
                out(&json!({"ev": "reasm", "kind": "good", "id": wid[fi], "total": nfrag[fi], "seq": s,
                            "pl": [names[fi], s], "ret": ret, "qlen": fr.queue_len()}));
                if ret == "panic" { break; }
            } else if choice < 8 {
                let kinds = [("orphan", 3u64, 2u64, 0u64), ("incons", 1, 3, 1), ("incons", 2, 2, 0), ("seqge", 3, 2, 5),
                             ("total0", 1, 0, 0), ("big", 3, 130, 129), ("big", 3, 128, 0), ("short", 0, 0, 0), ("seqge", 1, 2, 2), ("big", 1, 200, 0)];
                let (kind, id, total, seq) = kinds[((r >> 8) % kinds.len() as u64) as usize];
                let bytes = junk_bytes(kind, id, total, seq, r >> 20);
                let res = catch_unwind(AssertUnwindSafe(|| fr.reassemble(bytes)));
                let ret = match res { Err(_) => "panic", Ok(None) => "none", Ok(Some(_)) => "garbage" };
                out(&json!({"ev": "reasm", "kind": kind, "id": id, "total": total, "seq": seq, "pl": ["junk", 0],
                            "ret": ret, "qlen": fr.queue_len()}));
                if ret == "panic" { break; }
            } else {
                clock += 1;
                crate::vtrace::set_skew(Duration::from_millis(clock * 1000 - 500));
                fr.timer();
                crate::vtrace::set_skew(Duration::from_millis(clock * 1000));
                out(&json!({"ev": "tick", "qlen": fr.queue_len()}));
            }
        }
    }
}

//! C18: the configuration loading sequence of main() (same calls, same order) run in-process on mutated documents.
use super::*;
use crate::{config, connectors, listeners, rules, GlobalState};
use easy_error::{Error, ResultExt};
use std::sync::Arc;

/// mirrors main(): parse, build listeners/connectors, init everything, load rules, verify. Nothing listens.
pub async fn load(yaml: &str) -> Result<(), Error> {
    let cfg: config::Config = serde_yaml::from_str(yaml).context("parse yaml")?;
    let mut state: Arc<GlobalState> = Default::default();
    {
        let st_mut = Arc::get_mut(&mut state).unwrap();
        let ctx_mut = Arc::get_mut(&mut st_mut.contexts).unwrap();
        st_mut.timeouts = cfg.timeouts;
        ctx_mut.default_timeout = st_mut.timeouts.idle;
        st_mut.listeners = listeners::from_config(&cfg.listeners)?;
        st_mut.connectors = connectors::from_config(&cfg.connectors)?;
        #[cfg(feature = "metrics")]
        if let Some(mut metrics) = cfg.metrics {
            metrics.init()?;
            ctx_mut.history_size = metrics.history_size;
            st_mut.metrics = Some(Arc::new(metrics));
        }
        if let Some(mut log) = cfg.access_log {
            log.init().await?;
            ctx_mut.access_log = Some(log);
        }
        for l in st_mut.listeners.values_mut() {
            Arc::get_mut(l).unwrap().init().await?;
        }
        for c in st_mut.connectors.values_mut() {
            Arc::get_mut(c).unwrap().init().await?;
        }
        st_mut.set_rules(rules::from_config(&cfg.rules)?).await?;
        st_mut.io_params = cfg.io_params;
    }
    for l in state.listeners.values() {
        l.verify(state.clone()).await?;
    }
    for c in state.connectors.values() {
        c.verify(state.clone()).await?;
    }
    Ok(())
}

/// vh config <cases.ndjson>: {id, yaml} -> {id, load: accepted|rejected|panic, msg}
pub fn main(args: &[String]) {
    let cases = read_cases(&args[0]);
    silence_panics();
    par_for_each(&cases, 8, |_i, c| {
        let yaml = c.get("yaml").and_then(|y| y.as_str()).unwrap_or("").to_string();
        let post = c.get("post").and_then(|y| y.as_str()).map(|s| s.to_string());
        let r = std::panic::catch_unwind(std::panic::AssertUnwindSafe(|| {
            let rt = tokio::runtime::Builder::new_current_thread().enable_all().build().unwrap();
            let r = rt.block_on(async {
                tokio::time::timeout(std::time::Duration::from_secs(20), async {
                    match &post {
                        // what POST /rules does with its body
                        Some(body) => {
                            let w = super::route::make_world(&json!({"direct": {"features": ["TcpForward"], "fail": false}}), &[])
                                .await
                                .map_err(easy_error::err_msg)?;
                            let rules: Vec<Arc<crate::rules::Rule>> = serde_json::from_str(body).context("json")?;
                            w.state.set_rules(rules).await
                        }
                        None => load(&yaml).await,
                    }
                })
                .await
            });
            rt.shutdown_background();
            r
        }));
        let o = match r {
            Err(e) => json!({"id": c["id"], "load": "panic", "msg": panic_text(e)}),
            Ok(Err(_)) => json!({"id": c["id"], "load": "hang", "msg": "loader did not return within 20 s"}),
            Ok(Ok(Ok(()))) => json!({"id": c["id"], "load": "accepted"}),
            Ok(Ok(Err(e))) => json!({"id": c["id"], "load": "rejected", "msg": format!("{} cause: {:?}", e, e.cause).chars().take(200).collect::<String>()}),
        };
        out(&o);
    });
    out(&json!({"summary": true, "cases": cases.len()}));
}

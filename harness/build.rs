// The crate root is an include! of the repository's main.rs (RP_SRC, default /repo).
// Tell cargo to rebuild whenever anything under <RP_SRC>/src or <RP_SRC>/milu changes.
use std::path::Path;
fn walk(p: &Path) {
    if let Ok(rd) = std::fs::read_dir(p) {
        for e in rd.flatten() {
            let p = e.path();
            if p.is_dir() {
                walk(&p);
            } else {
                println!("cargo:rerun-if-changed={}", p.display());
            }
        }
    }
}
fn main() {
    let src = std::env::var("RP_SRC").unwrap_or_else(|_| "/repo".to_string());
    println!("cargo:rerun-if-env-changed=RP_SRC");
    println!("cargo:rustc-env=RP_SRC={}", src);
    walk(&Path::new(&src).join("src"));
    println!("cargo:rerun-if-changed={}/src", src);
}

------------------------------ MODULE TraceLife ------------------------------
(* impl -> spec for C16 and C06: the lifecycle / registry events of a real proxy process (ctx_new,    *)
(* state, connect_end, drop, gc; ordered by the proxy's sequence number) interleaved, at quiescent     *)
(* points, with what the driver read from the management API (live, history) and, per connection, what *)
(* the client actually received as reply (obs_reply) and whether the recorded fields are truthful      *)
(* (obs_record, computed by the driver from what its clients and origins did).                        *)
EXTENDS Life, Json, IOUtils

Rec == ndJsonDeserialize(IOEnv.TRACE)
Hdr == Rec[1]              \* {"ev":"hdr","n":number of contexts,"hist":history size}
TraceConns == 0..(Hdr.n - 1)
TraceHist == Hdr.hist

VARIABLES l, batch          \* batch: the contexts the collector pass in progress took off the drop list, in list order
tvars == <<vars, l, batch>>
TraceInit == Init /\ l = 2 /\ batch = <<>>
(* traces without reply observations: which failure reply a failed handshake got is not observable; states that
   differ only in `replies` are identified so that the search stays linear *)
NoReplyView == <<ph, log, upUp, alive, gcq, history, lines, created, l, batch>>
IsEvent(e) == l <= Len(Rec) /\ Rec[l].ev = e /\ l' = l + 1
ToSet(s) == {s[i] : i \in 1..Len(s)}

TNew == IsEvent("ctx_new") /\ Create(Rec[l].id) /\ UNCHANGED batch
TState == /\ IsEvent("state")
          /\ LET c == Rec[l].id  s == Rec[l].st IN
             CASE s = "ClientRequested" -> Enqueue(c)
               [] s = "ServerConnecting" -> ConnectBegin(c)
               [] s = "Connected" -> OnConnect(c)
               [] s \in Halves -> HalfLog(c, s)
               [] s = "Terminated" -> RelayOk(c)
               [] s = "ErrorOccured" -> (Refuse(c) \/ ConnectFail(c) \/ RelayErr(c) \/ \E k \in {"garbage", "badauth", "badcmd"} : HandshakeFail(c, k))
               [] OTHER -> FALSE
          /\ UNCHANGED batch
TConnEnd == /\ IsEvent("connect_end")
            /\ IF Rec[l].ok THEN ConnectOk(Rec[l].id) ELSE (ph[Rec[l].id] = "connecting" /\ UNCHANGED vars)
            /\ UNCHANGED batch
TDrop == IsEvent("drop") /\ Drop(Rec[l].id) /\ UNCHANGED batch
(* the collector swaps the drop list out under the list's lock; both hooks (drop, gc_take) fire under that lock, so the *)
(* contexts it took are exactly the first n of the drops seen so far, in that order                                    *)
TGcTake == /\ IsEvent("gc_take") /\ batch = <<>> /\ Rec[l].n >= 1 /\ Rec[l].n <= Len(gcq)
           /\ batch' = SubSeq(gcq, 1, Rec[l].n)
           /\ gcq' = SubSeq(gcq, Rec[l].n + 1, Len(gcq))
           /\ UNCHANGED <<ph, log, upUp, replies, alive, history, lines, created>>
(* the end of the pass: every context of the batch got its log line, left the registry and was pushed to the front of  *)
(* the history in batch order (so the last one is the newest), which was then cut to its size                           *)
MinN(a, b) == IF a < b THEN a ELSE b
TGc == /\ IsEvent("gc") /\ batch # <<>>
       /\ LET B == ToSet(batch)  H == Rec[l].history_ids  n == Len(batch)  k == MinN(n, HistSize) IN
            /\ Len(H) = MinN(HistSize, n + Len(history))
            /\ \A i \in 1..k : H[i] = batch[n - i + 1]
            /\ SubSeq(H, k + 1, Len(H)) = SubSeq(history, 1, Len(H) - k)
            /\ history' = H
            /\ alive' = alive \ B
            /\ lines' = [c \in Conns |-> IF c \in B THEN lines[c] + 1 ELSE lines[c]]
            /\ batch' = <<>>
            /\ Cardinality(alive') = Rec[l].alive_len
       /\ UNCHANGED <<ph, log, upUp, replies, created, gcq>>
(* API snapshots taken by the driver while nothing else was going on *)
(* (taken at quiescent points: nothing may be waiting for the collector any more) *)
TLive == /\ IsEvent("api_live") /\ UNCHANGED <<vars, batch>>
         /\ ToSet(Rec[l].ids) = alive \ (ToSet(gcq) \cup ToSet(batch))
         /\ gcq = <<>> /\ batch = <<>>
THistory == /\ IsEvent("api_history") /\ UNCHANGED <<vars, batch>>
            /\ Rec[l].ids = history
(* what the client of connection id received until end of stream *)
TReply == /\ IsEvent("obs_reply") /\ UNCHANGED <<vars, batch>>
          /\ LET c == Rec[l].id IN
               /\ replies[c] = (IF Rec[l].kind = "none" THEN <<>> ELSE <<Rec[l].kind>>)
               /\ Rec[l].wellformed
               /\ (Rec[l].kind = "fail" => Rec[l].closed)
               /\ (Rec[l].kind = "ok" => Rec[l].upstream_seen)          \* established only after the upstream was
               /\ (Rec[l].must_not_reach_upstream => ~Rec[l].upstream_seen)
TRecord == /\ IsEvent("obs_record") /\ UNCHANGED <<vars, batch>>
           /\ Rec[l].listener_ok /\ Rec[l].source_ok /\ Rec[l].target_ok /\ Rec[l].connector_ok /\ Rec[l].bytes_ok
           /\ Rec[l].states = log[Rec[l].id] /\ Rec[l].error_recorded = (ph[Rec[l].id] = "error")
(* access log: exactly one line per collected connection *)
TLines == /\ IsEvent("log_lines") /\ UNCHANGED <<vars, batch>>
          /\ \A c \in Conns : Cardinality({i \in 1..Len(Rec[l].ids) : Rec[l].ids[i] = c}) = lines[c]
          /\ ToSet(Rec[l].ids) \subseteq Conns
TraceNext == TNew \/ TState \/ TConnEnd \/ TDrop \/ TGcTake \/ TGc \/ TLive \/ THistory \/ TReply \/ TRecord \/ TLines
TraceSpec == TraceInit /\ [][TraceNext]_tvars

TraceAccepted ==
    LET d == TLCGet("stats").diameter IN
    IF d = Len(Rec) THEN PrintT(<<"TRACE-ACCEPTED", Len(Rec)>>)
    ELSE /\ PrintT(<<"TRACE-REJECTED", "matched", d, "of", Len(Rec), "first unmatched",
                     IF d + 1 <= Len(Rec) THEN ToJson(Rec[d + 1]) ELSE "-">>)
         /\ FALSE
=============================================================================

-------------------------------- MODULE MCUdp --------------------------------
EXTENDS Udp
MC_Clients == {"c1", "c2"}
MC_Dgrams == {"d1", "d2", "d3", "d4"}
MC_Owner == [d \in MC_Dgrams |-> IF d \in {"d1", "d2"} THEN "c1" ELSE "c2"]
MC_Dst == [d \in MC_Dgrams |-> IF d \in {"d1", "d3"} THEN "o1" ELSE "o2"]
=============================================================================

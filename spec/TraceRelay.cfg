CONSTANTS
  NTok = 64
  BufSz = 1000000
  MaxEarly = 64
  Idle = 0
  MaxClock = 0
SPECIFICATION TraceSpec
INVARIANT Inv
CONSTRAINT Track
POSTCONDITION TraceAccepted
CHECK_DEADLOCK FALSE

----------------------------- MODULE MiluTypes -----------------------------
(* Reference typing and reference evaluation of the rule language (milu) for property C08.        *)
(*   TypeOf(e, xt)      documented static type, or Reject (ill-typed), or Open (the documentation  *)
(*                      does not fix it: only agreement checker/evaluator and crash-freedom are    *)
(*                      demanded)                                                                 *)
(*   Eval(e, xv, env)   big-step value, a dynamic error class, or Unk (defined but not predicted)  *)
(* Expressions are states: TLC grows them by wrapping the current expression into an operand slot  *)
(* of a further operator, so every operator is applied to every operand class.  Each state is     *)
(* printed (text, reference type, reference value under three request environments); the harness   *)
(* runs the real parser, checker (type_of as used when a rule / hash key / log format is loaded)   *)
(* and evaluator on the text and the runner applies the verdict table of DESIGN.md §4 C08.         *)
(* Soundness of the reference itself (a well-typed expression evaluates to a value of its type or  *)
(* to a dynamic error) is the invariant RefSound, checked by TLC on every generated expression.    *)
EXTENDS Integers, Sequences, FiniteSets, TLC, Json

---------------------------------------------------------------------------
(* types: uniform records [k, e]                                           *)
T(k) == [k |-> k, e |-> <<>>]
IntT == T("int")  StrT == T("str")  BoolT == T("bool")
Reject == T("reject")  Open == T("open")
ArrT(t) == [k |-> "arr", e |-> <<t>>]
TupT(ts) == [k |-> "tup", e |-> ts]
IsScalar(t) == t.k \in {"int", "str", "bool"}
Bad(t) == t.k \in {"reject", "open"}

(* values: [t, v]; strings are sequences of one-character strings          *)
Lim == 1000000
IntV(n) == IF n > Lim THEN [t |-> "big", v |-> 1] ELSE IF n < -Lim THEN [t |-> "big", v |-> -1] ELSE [t |-> "int", v |-> n]
StrV(s) == [t |-> "str", v |-> s]
BoolV(b) == [t |-> "bool", v |-> b]
ArrV(s) == [t |-> "arr", v |-> s]
TupV(s) == [t |-> "tup", v |-> s]
Err(e) == [t |-> "err", v |-> e]
Unk == [t |-> "unk", v |-> 0]          \* some value of the static type, or a dynamic error
IsErr(x) == x.t = "err"
DynErrs == {"DivZero", "IndexRange", "BadRegex", "NotNumeric", "Overflow"}

Chars(str) == str   \* strings are given directly as sequences in this module

---------------------------------------------------------------------------
(* request environments *)
Envs == <<
  [listener |-> <<"L","1">>, feature |-> <<"T","c","p","F","o","r","w","a","r","d">>,
   source |-> <<"1","2","7",".","0",".","0",".","1",":","1","0","0","0">>, source_host |-> <<"1","2","7",".","0",".","0",".","1">>,
   source_port |-> 1000, source_type |-> <<"i","p","v","4">>,
   target |-> <<"e","x",".","c","o","m",":","8","0">>, target_host |-> <<"e","x",".","c","o","m">>, target_port |-> 80,
   target_type |-> <<"d","o","m","a","i","n">>],
  [listener |-> <<>>, feature |-> <<"U","d","p","F","o","r","w","a","r","d">>,
   source |-> <<"[",":",":","1","]",":","6","5","5","3","5">>, source_host |-> <<":",":","1">>,
   source_port |-> 65535, source_type |-> <<"i","p","v","6">>,
   target |-> <<"1","0",".","0",".","0",".","1",":","0">>, target_host |-> <<"1","0",".","0",".","0",".","1">>, target_port |-> 0,
   target_type |-> <<"i","p","v","4">>],
  [listener |-> <<"7">>, feature |-> <<"T","c","p","F","o","r","w","a","r","d">>,
   source |-> <<"1","0",".","1",".","2",".","3",":","1">>, source_host |-> <<"1","0",".","1",".","2",".","3">>,
   source_port |-> 1, source_type |-> <<"i","p","v","4">>,
   target |-> <<"[","2","0","0","1",":","d","b","8",":",":","1","]",":","6","5","5","3","5">>,
   target_host |-> <<"2","0","0","1",":","d","b","8",":",":","1">>, target_port |-> 65535,
   target_type |-> <<"i","p","v","6">>] >>

---------------------------------------------------------------------------
(* atoms: [txt (token sequence), ty, val or env field]                      *)
Lit(txt, ty, val) == [k |-> "atom", txt |-> txt, ty |-> ty, val |-> val, env |-> ""]
EnvA(txt, ty, field) == [k |-> "atom", txt |-> txt, ty |-> ty, val |-> Unk, env |-> field]
Q == "\""
StrLit(s, shown) == Lit(<<Q \o shown \o Q>>, StrT, StrV(s))

IntAtoms == { Lit(<<"0">>, IntT, IntV(0)), Lit(<<"1">>, IntT, IntV(1)), Lit(<<"2">>, IntT, IntV(2)), Lit(<<"7">>, IntT, IntV(7)),
              Lit(<<"63">>, IntT, IntV(63)), Lit(<<"64">>, IntT, IntV(64)),
              Lit(<<"(", "-", "1", ")">>, IntT, IntV(-1)), Lit(<<"(", "-", "3", ")">>, IntT, IntV(-3)),
              Lit(<<"9223372036854775807">>, IntT, [t |-> "big", v |-> 1]),
              Lit(<<"(", "-", "9223372036854775807", "-", "1", ")">>, IntT, [t |-> "big", v |-> -1]) }
StrAtoms == { StrLit(<<>>, ""), StrLit(<<"a">>, "a"), StrLit(<<"7">>, "7"), StrLit(<<"(">>, "("),
              StrLit(<<"a", ",", "b">>, "a,b"), StrLit(<<",">>, ",") }
BoolAtoms == { Lit(<<"true">>, BoolT, BoolV(TRUE)), Lit(<<"false">>, BoolT, BoolV(FALSE)) }
ArrAtoms == { Lit(<<"[", "1", ",", "2", "]">>, ArrT(IntT), ArrV(<<IntV(1), IntV(2)>>)),
              Lit(<<"[", Q \o "a" \o Q, ",", Q \o "7" \o Q, "]">>, ArrT(StrT), ArrV(<<StrV(<<"a">>), StrV(<<"7">>)>>)),
              Lit(<<"[", "true", "]">>, ArrT(BoolT), ArrV(<<BoolV(TRUE)>>)),
              Lit(<<"[", "]">>, Open, ArrV(<<>>)),
              Lit(<<"[", "1", ",", Q \o "a" \o Q, "]">>, Reject, Unk) }
TupAtoms == { Lit(<<"(", "1", ",", Q \o "a" \o Q, ")">>, TupT(<<IntT, StrT>>), TupV(<<IntV(1), StrV(<<"a">>)>>)) }
EnvAtoms == { EnvA(<<"request", ".", "listener">>, StrT, "listener"), EnvA(<<"request", ".", "feature">>, StrT, "feature"),
              EnvA(<<"request", ".", "source">>, StrT, "source"), EnvA(<<"request", ".", "source", ".", "host">>, StrT, "source_host"),
              EnvA(<<"request", ".", "source", ".", "port">>, IntT, "source_port"),
              EnvA(<<"request", ".", "source", ".", "type">>, StrT, "source_type"),
              EnvA(<<"request", ".", "target">>, StrT, "target"), EnvA(<<"request", ".", "target", ".", "host">>, StrT, "target_host"),
              EnvA(<<"request", ".", "target", ".", "port">>, IntT, "target_port"),
              EnvA(<<"request", ".", "target", ".", "type">>, StrT, "target_type") }
(* calls with the wrong number of arguments: ill-typed, must be rejected when loaded *)
ArityAtoms == { Lit(<<"to_string", "(", ")">>, Reject, Unk), Lit(<<"split", "(", Q \o "a" \o Q, ")">>, Reject, Unk),
                Lit(<<"strcat", "(", ")">>, Reject, Unk), Lit(<<"cidr_match", "(", Q \o "a" \o Q, ")">>, Reject, Unk),
                Lit(<<"to_integer", "(", Q \o "7" \o Q, ",", Q \o "7" \o Q, ")">>, Reject, Unk),
                Lit(<<"to_integer", "(", ")">>, Reject, Unk) }
Atoms == ArityAtoms \cup IntAtoms \cup StrAtoms \cup BoolAtoms \cup ArrAtoms \cup TupAtoms \cup EnvAtoms
Var == [k |-> "var"]
Pick(S, txts) == {a \in S : a.txt \in txts}

---------------------------------------------------------------------------
(* operators *)
ArithOps == {"+", "-", "*", "/", "%"}
BitOps == {"&", "|", "^", "<<", ">>", ">>>"}
CmpOps == {"<", "<=", ">", ">="}
EqOps == {"==", "!="}
ReOps == {"=~", "!~"}
LogOps == {"&&", "||", "^^", "and", "or", "xor"}
BinOpToks == ArithOps \cup BitOps \cup CmpOps \cup EqOps \cup ReOps \cup LogOps \cup {"_:"}
UnOpToks == {"!", "~", "-"}
Funs1 == {"to_string", "to_integer", "strcat"}
Funs2 == {"split", "cidr_match"}

(* node constructors *)
BinE(o, a, b) == [k |-> "bin", o |-> o, a |-> a, b |-> b]
UnE(o, a) == [k |-> "un", o |-> o, a |-> a]
IfE(a, b, c) == [k |-> "if", a |-> a, b |-> b, c |-> c]
LetE(a, b) == [k |-> "let", a |-> a, b |-> b]
(* scoping: a name bound by let keeps the value it had where it was DEFINED, whatever is bound to the same name later  *)
(*   w = "y":      let x = A in let y = x in let x = B in y      (y is A, not B)                                     *)
(*   w = "x":      let x = A in let y = x in let x = B in x      (x is B)                                            *)
(*   w = "rebind": let x = A in let x = x + 2 in x               (the inner x is defined from the outer one)          *)
ScopeE(a, b, w) == [k |-> "scope", a |-> a, b |-> b, w |-> w]
IdxE(a, b) == [k |-> "idx", a |-> a, b |-> b]
AccE(a, n) == [k |-> "acc", a |-> a, n |-> n]
Call1(f, a) == [k |-> "call1", f |-> f, a |-> a]
Call2(f, a, b) == [k |-> "call2", f |-> f, a |-> a, b |-> b]
TmplE(a) == [k |-> "tmpl", a |-> a]
ArrE(a, b) == [k |-> "arr2", a |-> a, b |-> b]
TupE(a, b) == [k |-> "tup2", a |-> a, b |-> b]

---------------------------------------------------------------------------
(* text (fully parenthesised token sequence) *)
RECURSIVE Text(_)
P(s) == <<"(">> \o s \o <<")">>
Text(e) ==
  CASE e.k = "atom" -> e.txt
    [] e.k = "var"  -> <<"x">>
    [] e.k = "bin"  -> P(Text(e.a) \o <<e.o>> \o Text(e.b))
    [] e.k = "un"   -> P(<<e.o>> \o Text(e.a))
    [] e.k = "if"   -> P(Text(e.a) \o <<"?">> \o Text(e.b) \o <<":">> \o Text(e.c))
    [] e.k = "let"  -> P(<<"let", "x", "=">> \o Text(e.a) \o <<"in">> \o Text(e.b))
    [] e.k = "scope" -> IF e.w = "rebind"
                        THEN P(<<"let", "x", "=">> \o Text(e.a) \o <<"in">> \o P(<<"let", "x", "=", "(", "x", "+", "2", ")", "in", "x">>))
                        ELSE P(<<"let", "x", "=">> \o Text(e.a) \o <<"in">> \o
                               P(<<"let", "y", "=", "x", "in">> \o P(<<"let", "x", "=">> \o Text(e.b) \o <<"in", e.w>>)))
    [] e.k = "idx"  -> P(Text(e.a) \o <<"[">> \o Text(e.b) \o <<"]">>)
    [] e.k = "acc"  -> P(Text(e.a) \o <<".", ToString(e.n)>>)
    [] e.k = "call1" -> <<e.f, "(">> \o Text(e.a) \o <<")">>
    [] e.k = "call2" -> <<e.f, "(">> \o Text(e.a) \o <<",">> \o Text(e.b) \o <<")">>
    [] e.k = "tmpl" -> <<"`p${">> \o Text(e.a) \o <<"}s`">>
    [] e.k = "arr2" -> <<"[">> \o Text(e.a) \o <<",">> \o Text(e.b) \o <<"]">>
    [] e.k = "tup2" -> <<"(">> \o Text(e.a) \o <<",">> \o Text(e.b) \o <<")">>

---------------------------------------------------------------------------
(* reference typing; xt = type of the let-bound x (Reject when unbound) *)
RECURSIVE TypeOf(_, _)
Both(a, b, t) == a = t /\ b = t
AnyBad(ts) == \E i \in 1..Len(ts) : Bad(ts[i])
(* combine "ill-typed" verdicts: a Reject anywhere wins, then Open *)
Worst(ts) == IF \E i \in 1..Len(ts) : ts[i].k = "reject" THEN Reject ELSE Open

TypeOf(e, xt) ==
  CASE e.k = "atom" -> e.ty
    [] e.k = "var"  -> xt
    [] e.k = "un"   -> LET a == TypeOf(e.a, xt) IN
                       IF Bad(a) THEN a
                       ELSE IF e.o = "!" THEN (IF a = BoolT THEN BoolT ELSE Reject)
                       ELSE (IF a = IntT THEN IntT ELSE Reject)
    [] e.k = "bin"  -> LET a == TypeOf(e.a, xt)  b == TypeOf(e.b, xt) IN
                       IF AnyBad(<<a, b>>) THEN Worst(<<a, b>>)
                       ELSE IF e.o \in ArithOps \cup BitOps THEN (IF Both(a, b, IntT) THEN IntT ELSE Reject)
                       ELSE IF e.o \in CmpOps THEN (IF Both(a, b, IntT) THEN BoolT
                                                    ELSE IF a = b /\ IsScalar(a) THEN Open   \* ordering of strings/booleans: undocumented
                                                    ELSE Reject)
                       ELSE IF e.o \in EqOps THEN (IF a = b /\ IsScalar(a) THEN BoolT
                                                   ELSE IF a = b THEN Open                  \* equality of arrays / tuples: undocumented
                                                   ELSE Reject)
                       ELSE IF e.o \in ReOps THEN (IF Both(a, b, StrT) THEN BoolT ELSE Reject)
                       ELSE IF e.o \in LogOps THEN (IF Both(a, b, BoolT) THEN BoolT ELSE Reject)
                       ELSE (* _: *) (IF b.k = "arr" /\ b.e[1] = a /\ IsScalar(a) THEN BoolT
                                      ELSE IF b.k = "arr" /\ b.e[1] = a THEN Open
                                      ELSE Reject)
    [] e.k = "if"   -> LET a == TypeOf(e.a, xt)  b == TypeOf(e.b, xt)  c == TypeOf(e.c, xt) IN
                       IF AnyBad(<<a, b, c>>) THEN Worst(<<a, b, c>>)
                       ELSE IF a = BoolT /\ b = c THEN b ELSE Reject
    [] e.k = "let"  -> LET a == TypeOf(e.a, xt) IN IF Bad(a) THEN a ELSE TypeOf(e.b, a)
    [] e.k = "scope" -> LET a == TypeOf(e.a, xt) IN
                        IF Bad(a) THEN a
                        ELSE IF e.w = "rebind" THEN (IF a = IntT THEN IntT ELSE Reject)
                        ELSE LET b == TypeOf(e.b, a) IN IF Bad(b) THEN b ELSE IF e.w = "y" THEN a ELSE b
    [] e.k = "idx"  -> LET a == TypeOf(e.a, xt)  b == TypeOf(e.b, xt) IN
                       IF AnyBad(<<a, b>>) THEN Worst(<<a, b>>)
                       ELSE IF a.k = "arr" /\ b = IntT THEN a.e[1] ELSE Reject
    [] e.k = "acc"  -> LET a == TypeOf(e.a, xt) IN
                       IF Bad(a) THEN a
                       ELSE IF a.k = "tup" /\ e.n + 1 <= Len(a.e) THEN a.e[e.n + 1] ELSE Reject
    [] e.k = "call1" -> LET a == TypeOf(e.a, xt) IN
                       IF Bad(a) THEN a
                       ELSE IF e.f = "to_string" THEN (IF IsScalar(a) THEN StrT ELSE Open)
                       ELSE IF e.f = "to_integer" THEN (IF a = StrT THEN IntT ELSE Reject)
                       ELSE (* strcat *) (IF a = ArrT(StrT) THEN StrT ELSE Reject)
    [] e.k = "call2" -> LET a == TypeOf(e.a, xt)  b == TypeOf(e.b, xt) IN
                       IF AnyBad(<<a, b>>) THEN Worst(<<a, b>>)
                       ELSE IF ~Both(a, b, StrT) THEN Reject
                       ELSE IF e.f = "split" THEN ArrT(StrT) ELSE BoolT
    [] e.k = "tmpl" -> LET a == TypeOf(e.a, xt) IN IF Bad(a) THEN a ELSE IF a = StrT THEN StrT ELSE Reject
    [] e.k = "arr2" -> LET a == TypeOf(e.a, xt)  b == TypeOf(e.b, xt) IN
                       IF AnyBad(<<a, b>>) THEN Worst(<<a, b>>) ELSE IF a = b THEN ArrT(a) ELSE Reject
    [] e.k = "tup2" -> LET a == TypeOf(e.a, xt)  b == TypeOf(e.b, xt) IN
                       IF AnyBad(<<a, b>>) THEN Worst(<<a, b>>) ELSE TupT(<<a, b>>)

---------------------------------------------------------------------------
(* reference evaluation *)
Abs(n) == IF n < 0 THEN -n ELSE n
TruncDiv(a, b) == LET q == Abs(a) \div Abs(b) IN IF (a < 0) # (b < 0) THEN -q ELSE q
TruncRem(a, b) == a - b * TruncDiv(a, b)
RECURSIVE Pow2(_)
Pow2(n) == IF n = 0 THEN 1 ELSE 2 * Pow2(n - 1)
RECURSIVE BitAndN(_, _), BitOrN(_, _), BitXorN(_, _)
BitAndN(a, b) == IF a = 0 \/ b = 0 THEN 0 ELSE (a % 2) * (b % 2) + 2 * BitAndN(a \div 2, b \div 2)
BitOrN(a, b) == IF a = 0 THEN b ELSE IF b = 0 THEN a ELSE (IF a % 2 = 1 \/ b % 2 = 1 THEN 1 ELSE 0) + 2 * BitOrN(a \div 2, b \div 2)
BitXorN(a, b) == IF a = 0 THEN b ELSE IF b = 0 THEN a ELSE (IF (a % 2) # (b % 2) THEN 1 ELSE 0) + 2 * BitXorN(a \div 2, b \div 2)

RECURSIVE Digits(_)
Digits(n) == IF n < 10 THEN <<ToString(n)>> ELSE Digits(n \div 10) \o <<ToString(n % 10)>>
IntToStr(n) == IF n < 0 THEN <<"-">> \o Digits(-n) ELSE Digits(n)
DigitVal(c) == CASE c = "0" -> 0 [] c = "1" -> 1 [] c = "2" -> 2 [] c = "3" -> 3 [] c = "4" -> 4 [] c = "5" -> 5
                 [] c = "6" -> 6 [] c = "7" -> 7 [] c = "8" -> 8 [] c = "9" -> 9 [] OTHER -> -1
RECURSIVE ParseNat(_, _)
ParseNat(s, acc) == IF s = <<>> THEN acc ELSE IF DigitVal(Head(s)) < 0 \/ acc > Lim THEN -1 ELSE ParseNat(Tail(s), acc * 10 + DigitVal(Head(s)))
IsPrefixS(p, s) == Len(p) <= Len(s) /\ SubSeq(s, 1, Len(p)) = p
Contains(s, p) == \E i \in 0..(Len(s) - Len(p)) : SubSeq(s, i + 1, i + Len(p)) = p
RegexMeta == {"(", ")", "[", "]", ".", "*", "+", "?", "^", "$", "|", "\\", "{", "}"}
RECURSIVE SplitC(_, _, _)
SplitC(s, d, cur) == IF s = <<>> THEN <<StrV(cur)>>
                     ELSE IF Head(s) = d THEN <<StrV(cur)>> \o SplitC(Tail(s), d, <<>>)
                     ELSE SplitC(Tail(s), d, Append(cur, Head(s)))

ArithV(o, x, y) ==
  IF o \in {"/", "%"} /\ y.t = "int" /\ y.v = 0 THEN Err("DivZero")
  ELSE IF x.t = "big" \/ y.t = "big" THEN Unk
  ELSE LET a == x.v  b == y.v IN
    CASE o = "+" -> IntV(a + b) [] o = "-" -> IntV(a - b)
      [] o = "*" -> IF Abs(a) > 1000 /\ Abs(b) > 1000 THEN Unk ELSE IntV(a * b)
      [] o = "/" -> IntV(TruncDiv(a, b)) [] o = "%" -> IntV(TruncRem(a, b))
BitV(o, x, y) ==
  IF x.t = "big" \/ y.t = "big" THEN Unk
  ELSE LET a == x.v  b == y.v IN
    IF o \in {"<<", ">>", ">>>"} THEN
       (IF b < 0 \/ b > 63 THEN Unk          \* shift count out of range: overflow error or an implementation-defined value
        ELSE IF o = "<<" THEN (IF b > 20 \/ Abs(a) > 1000 THEN (IF a = 0 THEN IntV(0) ELSE Unk) ELSE IntV(a * Pow2(b)))
        ELSE IF a < 0 THEN (IF o = ">>" /\ b <= 30 THEN IntV(-(((-a) + Pow2(b) - 1) \div Pow2(b))) ELSE Unk)
        ELSE IF b > 30 THEN IntV(0) ELSE IntV(a \div Pow2(b)))
    ELSE IF a < 0 \/ b < 0 THEN Unk
    ELSE CASE o = "&" -> IntV(BitAndN(a, b)) [] o = "|" -> IntV(BitOrN(a, b)) [] o = "^" -> IntV(BitXorN(a, b))
Sign(x) == IF x.t = "big" THEN x.v * 2 * Lim ELSE x.v
CmpV(o, x, y) ==
  IF x.t = "big" /\ y.t = "big" /\ x.v = y.v THEN (IF o \in {"<=", ">="} THEN BoolV(TRUE) ELSE BoolV(FALSE))
  ELSE LET a == Sign(x)  b == Sign(y) IN
    CASE o = "<" -> BoolV(a < b) [] o = "<=" -> BoolV(a <= b) [] o = ">" -> BoolV(a > b) [] o = ">=" -> BoolV(a >= b)
SameV(x, y) == IF x.t = "big" \/ y.t = "big" THEN (x.t = y.t /\ x.v = y.v) ELSE x.v = y.v

FieldV(env, f) == IF f \in {"source_port", "target_port"} THEN IntV(env[f]) ELSE StrV(env[f])

RECURSIVE Eval(_, _, _)
Eval(e, xv, env) ==
  CASE e.k = "atom" -> IF e.env = "" THEN e.val ELSE FieldV(env, e.env)
    [] e.k = "var"  -> xv
    [] e.k = "un"   -> LET a == Eval(e.a, xv, env) IN
                       IF IsErr(a) \/ a.t = "unk" THEN a
                       ELSE IF e.o = "!" THEN BoolV(~a.v)
                       ELSE IF a.t = "big" THEN Unk
                       ELSE IF e.o = "-" THEN IntV(-a.v) ELSE IntV(-a.v - 1)
    [] e.k = "bin"  -> LET a == Eval(e.a, xv, env) IN
                       IF IsErr(a) THEN a
                       ELSE IF e.o \in {"&&", "and"} /\ a.t = "bool" /\ ~a.v THEN BoolV(FALSE)        \* short circuit
                       ELSE IF e.o \in {"||", "or"} /\ a.t = "bool" /\ a.v THEN BoolV(TRUE)
                       ELSE LET b == Eval(e.b, xv, env) IN
                       IF IsErr(b) THEN (IF a.t = "unk" THEN Unk ELSE b)
                       ELSE IF a.t = "unk" \/ b.t = "unk" THEN Unk
                       ELSE IF e.o \in ArithOps THEN ArithV(e.o, a, b)
                       ELSE IF e.o \in BitOps THEN BitV(e.o, a, b)
                       ELSE IF e.o \in CmpOps THEN CmpV(e.o, a, b)
                       ELSE IF e.o = "==" THEN BoolV(SameV(a, b))
                       ELSE IF e.o = "!=" THEN BoolV(~SameV(a, b))
                       ELSE IF e.o \in ReOps THEN
                            (IF \E i \in 1..Len(b.v) : b.v[i] \in RegexMeta THEN
                                 (IF b.v = <<"(">> THEN Err("BadRegex") ELSE Unk)
                             ELSE BoolV(IF e.o = "=~" THEN Contains(a.v, b.v) ELSE ~Contains(a.v, b.v)))
                       ELSE IF e.o \in {"&&", "and"} THEN BoolV(a.v /\ b.v)
                       ELSE IF e.o \in {"||", "or"} THEN BoolV(a.v \/ b.v)
                       ELSE IF e.o \in {"^^", "xor"} THEN BoolV(a.v # b.v)
                       ELSE (* _: *) BoolV(\E i \in 1..Len(b.v) : b.v[i].t = a.t /\ SameV(b.v[i], a))
    [] e.k = "if"   -> LET a == Eval(e.a, xv, env) IN
                       IF IsErr(a) \/ a.t = "unk" THEN a
                       ELSE IF a.v THEN Eval(e.b, xv, env) ELSE Eval(e.c, xv, env)
    [] e.k = "let"  -> LET a == Eval(e.a, xv, env) IN Eval(e.b, a, env)   \* x occurs in every generated body; an error in the binding surfaces there
    [] e.k = "scope" -> LET a == Eval(e.a, xv, env) IN
                        IF e.w = "y" THEN a                                \* B is a literal: nothing of it can surface
                        ELSE IF e.w = "x" THEN (IF IsErr(a) \/ a.t = "unk" THEN Unk ELSE Eval(e.b, a, env))   \* whether an unused failing binding surfaces is not documented
                        ELSE Eval(BinE("+", Var, CHOOSE t \in Atoms : t.txt = <<"2">>), a, env)
    [] e.k = "idx"  -> LET a == Eval(e.a, xv, env)  b == Eval(e.b, xv, env) IN
                       IF IsErr(b) THEN b ELSE IF IsErr(a) THEN a
                       ELSE IF a.t = "unk" \/ b.t = "unk" THEN Unk
                       ELSE IF b.t = "big" THEN (IF b.v > 0 THEN Err("IndexRange") ELSE Unk)
                       ELSE IF b.v < 0 THEN Unk                                  \* negative index: counting from the end is undocumented
                       ELSE IF b.v >= Len(a.v) THEN Err("IndexRange") ELSE a.v[b.v + 1]
    [] e.k = "acc"  -> LET a == Eval(e.a, xv, env) IN
                       IF IsErr(a) \/ a.t = "unk" THEN a ELSE a.v[e.n + 1]
    [] e.k = "call1" -> LET a == Eval(e.a, xv, env) IN
                       IF IsErr(a) \/ a.t = "unk" THEN a
                       ELSE IF e.f = "to_string" THEN (IF a.t = "int" THEN StrV(IntToStr(a.v)) ELSE Unk)
                       ELSE IF e.f = "to_integer" THEN
                            (IF a.v = <<>> THEN Err("NotNumeric")
                             ELSE IF \A i \in 1..Len(a.v) : DigitVal(a.v[i]) >= 0
                                  THEN (IF Len(a.v) > 6 THEN Unk ELSE IntV(ParseNat(a.v, 0)))
                             ELSE IF Head(a.v) \in {"-", "+"} THEN Unk ELSE Err("NotNumeric"))
                       ELSE (* strcat *) (IF \E i \in 1..Len(a.v) : a.v[i].t # "str" THEN Unk
                                          ELSE LET RECURSIVE Cat(_)
                                                   Cat(s) == IF s = <<>> THEN <<>> ELSE Head(s).v \o Cat(Tail(s))
                                               IN StrV(Cat(a.v)))
    [] e.k = "call2" -> LET a == Eval(e.a, xv, env)  b == Eval(e.b, xv, env) IN
                       IF IsErr(a) THEN a ELSE IF IsErr(b) THEN b
                       ELSE IF a.t = "unk" \/ b.t = "unk" THEN Unk
                       ELSE IF e.f = "split" THEN (IF Len(b.v) = 1 THEN ArrV(SplitC(a.v, b.v[1], <<>>)) ELSE Unk)
                       ELSE Unk     \* cidr_match: value decided exhaustively by C02's Cidr model, here only typed
    [] e.k = "tmpl" -> LET a == Eval(e.a, xv, env) IN
                       IF IsErr(a) \/ a.t = "unk" THEN a ELSE StrV(<<"p">> \o a.v \o <<"s">>)
    [] e.k = "arr2" -> LET a == Eval(e.a, xv, env)  b == Eval(e.b, xv, env) IN
                       IF IsErr(a) THEN a ELSE IF IsErr(b) THEN b ELSE ArrV(<<a, b>>)
    [] e.k = "tup2" -> LET a == Eval(e.a, xv, env)  b == Eval(e.b, xv, env) IN
                       IF IsErr(a) THEN a ELSE IF IsErr(b) THEN b ELSE TupV(<<a, b>>)

---------------------------------------------------------------------------
(* does value v inhabit type t (reference soundness) *)
RECURSIVE HasType(_, _)
HasType(v, t) ==
  CASE v.t = "unk" -> TRUE
    [] v.t = "err" -> v.v \in DynErrs
    [] v.t \in {"int", "big"} -> t = IntT
    [] v.t = "str" -> t = StrT
    [] v.t = "bool" -> t = BoolT
    [] v.t = "arr" -> t.k = "arr" /\ \A i \in 1..Len(v.v) : HasType(v.v[i], t.e[1])
    [] v.t = "tup" -> t.k = "tup" /\ Len(v.v) = Len(t.e) /\ \A i \in 1..Len(v.v) : HasType(v.v[i], t.e[i])

---------------------------------------------------------------------------
(* generation *)
CONSTANTS MaxDepth, RepAtoms, Wide
(* RepAtoms: atoms used as the *other* operands from depth 2 on; Wide: all atoms at depth 1 *)


(* all ways to put expression e into one slot of one more operator; oth = allowed sibling atoms *)
Wraps(e, oth, bops) ==
     {UnE(o, e) : o \in UnOpToks}
  \cup {BinE(o, e, a) : o \in bops, a \in oth} \cup {BinE(o, a, e) : o \in bops, a \in oth}
  \cup {IfE(e, a, b) : a \in oth, b \in oth} \cup {IfE(c, e, a) : c \in BoolAtoms, a \in oth} \cup {IfE(c, a, e) : c \in BoolAtoms, a \in oth}
  \cup {LetE(e, b) : b \in {Var, BinE("+", Var, Var), BinE("==", Var, Var), TmplE(Var), BinE("_:", Var, ArrE(Var, Var))}}
  \cup {ScopeE(e, b, w) : b \in Pick(Atoms, {<<"0">>, <<Q \o "a" \o Q>>, <<"true">>}), w \in {"y", "x"}} \cup {ScopeE(e, e, "rebind")}
  \cup {IdxE(e, a) : a \in oth} \cup {IdxE(a, e) : a \in oth}
  \cup {AccE(e, n) : n \in {0, 1, 2}}
  \cup {Call1(f, e) : f \in Funs1}
  \cup {Call2(f, e, a) : f \in Funs2, a \in oth} \cup {Call2(f, a, e) : f \in Funs2, a \in oth}
  \cup {TmplE(e)}
  \cup {ArrE(e, a) : a \in oth} \cup {ArrE(a, e) : a \in oth}
  \cup {TupE(e, a) : a \in oth}

RepSmall == Pick(Atoms, {<<"0">>, <<"2">>, <<"64">>, <<"(", "-", "1", ")">>, <<"9223372036854775807">>,
                         <<Q \o "a" \o Q>>, <<Q \o "7" \o Q>>, <<Q \o "(" \o Q>>, <<"true">>, <<"false">>,
                         <<"[", "1", ",", "2", "]">>, <<"[", Q \o "a" \o Q, ",", Q \o "7" \o Q, "]">>,
                         <<"(", "1", ",", Q \o "a" \o Q, ")">>,
                         <<"request", ".", "listener">>, <<"request", ".", "target", ".", "port">>, <<"request", ".", "source">>})
RepTiny == Pick(Atoms, {<<"0">>, <<Q \o "a" \o Q>>, <<"true">>, <<"[", "1", ",", "2", "]">>,
                        <<"request", ".", "target", ".", "port">>})

InnerOps == {"+", "/", "<<", "<", "==", "=~", "&&", "_:"}

VARIABLES e, d, rep
Init == d = 0 /\ e \in Atoms /\ rep = (e \in RepAtoms)
(* depth 1: every operator over every atom (Wide) -- only the representative ones are grown further *)
Next == \/ /\ d = 0 /\ d' = 1
           /\ e' \in Wraps(e, IF Wide THEN Atoms ELSE RepAtoms, BinOpToks)
           /\ rep' = (rep /\ e' \in Wraps(e, RepAtoms, InnerOps))
        \/ /\ d >= 1 /\ d < MaxDepth /\ rep /\ d' = d + 1
           /\ e' \in Wraps(e, RepAtoms, IF d >= 2 THEN InnerOps ELSE BinOpToks)
           /\ rep' = TRUE

RTy == TypeOf(e, Reject)
RVal(i) == IF Bad(RTy) THEN Unk ELSE Eval(e, Unk, Envs[i])   \* evaluation is only defined on well-typed expressions

(* the reference rules are themselves sound: a legitimate oracle *)
RefSound == (~Bad(RTy)) => \A i \in 1..Len(Envs) : HasType(RVal(i), RTy)

(* JSON-friendly form of a value *)
RECURSIVE Show(_)
RECURSIVE JoinS(_)
JoinS(s) == IF s = <<>> THEN "" ELSE Head(s) \o JoinS(Tail(s))
Show(v) == CASE v.t = "str" -> [t |-> "str", v |-> JoinS(v.v)]
             [] v.t \in {"arr", "tup"} -> [t |-> v.t, v |-> [i \in 1..Len(v.v) |-> Show(v.v[i])]]
             [] OTHER -> v
Root == IF e.k \in {"bin", "un"} THEN e.o ELSE IF e.k \in {"call1", "call2"} THEN e.f ELSE e.k
Emit == PrintT(<<"CASE", ToJson([depth |-> d, root |-> Root, txt |-> Text(e), ty |-> RTy,
                                 vals |-> [i \in 1..Len(Envs) |-> Show(RVal(i))]])>>)
=============================================================================

CONSTANTS
  Conns <- TraceConns
  HistSize <- TraceHist
SPECIFICATION TraceSpec
VIEW NoReplyView

POSTCONDITION TraceAccepted
CHECK_DEADLOCK FALSE

------------------------------ MODULE ProxyObs ------------------------------
(* C15, decisions under a stream of replacements, without replaying the interleaving: while the poster only ever      *)
(* alternates between two valid lists L and L' (MCProxy V7L / V8L: 42 rules each, neither denies a TCP request, a      *)
(* prefix of one plus the tail of the other does), every request is decided by ONE of the two - Proxy.tla's Snapshot   *)
(* semantics: Decision(L, r) or Decision(L', r), whatever the interleaving.  One record per finished request.          *)
EXTENDS MCProxy, IOUtils
Rec == ndJsonDeserialize(IOEnv.OBS)
Allowed(q) == {Decision(V7L, ProbeReqs[q], MC_Connectors), Decision(V8L, ProbeReqs[q], MC_Connectors)}
OneHist == {<<V1>>}
VARIABLE i
OInit == Init /\ i = 1
ONext == i <= Len(Rec) /\ i' = i + 1 /\ UNCHANGED vars
Emit == (i <= Len(Rec) /\ Rec[i].decided \notin Allowed(Rec[i].req)) => PrintT(<<"CASE", ToJson([idx |-> i, rec |-> Rec[i], allowed |-> Allowed(Rec[i].req)])>>)
=============================================================================

------------------------------ MODULE MCLocks ------------------------------
(* Task programs transcribed from the code (the tree with the C14 repairs; the *AsIs variants are the  *)
(* programs of the original code and make NoStallPropagation fail - kept as a self-test of the model). *)
EXTENDS Locks

A(l, m) == <<"acq", l, m>>
R(l) == <<"rel", l, "-">>
P(p) == <<"peer", p, "-">>

(* HTTP / QUIC listener task, client c with context lock x:                                           *)
(*   create_context (context.rs: alive.lock().await.insert)             A(alive) R(alive)              *)
(*   set_client_stream                                                  A(x,w) R(x)                    *)
(*   h11c_handshake: take the stream out, read the request head WITHOUT the lock, put it back          *)
(*   enqueue -> process_request: read guard + rules read guard, set_state, connect (upstream), reply   *)
Http(c, x, up) == <<A("alive", "w"), R("alive"), A(x, "w"), R(x), P(c), A(x, "w"), R(x),
                    A(x, "r"), A("rules", "r"), R("rules"), R(x), P(up)>>
(* original h11c_handshake: request head read while holding the context's write lock *)
HttpAsIs(c, x, up) == <<A("alive", "w"), R("alive"), A(x, "w"), P(c), R(x),
                        A(x, "r"), A("rules", "r"), R("rules"), R(x), P(up)>>
(* SOCKS listener (listeners/socks.rs handshake): the socket is a local variable while the request is read *)
Socks(c, x, up) == <<A("alive", "w"), R("alive"), P(c), A(x, "w"), R(x),
                     A(x, "r"), A("rules", "r"), R("rules"), R(x), P(up)>>
(* metrics.rs get_alive: collect the live contexts under the registry mutex, release it, then read each *)
Live == <<A("alive", "w"), R("alive"), A("ctx1", "r"), R("ctx1"), A("ctx2", "r"), R("ctx2"), A("ctx3", "r"), R("ctx3")>>
(* original get_alive: every context read-locked while the registry mutex is held *)
LiveAsIs == <<A("alive", "w"), A("ctx1", "r"), R("ctx1"), A("ctx2", "r"), R("ctx2"), A("ctx3", "r"), R("ctx3"), R("alive")>>
History == <<A("hist", "w"), R("hist")>>
RulesGet == <<A("rules", "r"), R("rules")>>
RulesPost == <<A("rules", "w"), R("rules"), A("rules", "r"), R("rules")>>
(* context.rs gc_thread: the records of a pass go to the access-log task through a bounded channel (a log sink that does *)
(* not drain stalls the collector: peer "log") BEFORE the history and registry mutexes are taken                          *)
Gc == <<P("log"), A("hist", "w"), A("alive", "w"), R("alive"), R("hist")>>
(* a collector that hands the records over while holding both mutexes (self-test: violates) *)
GcLocked == <<A("hist", "w"), A("alive", "w"), P("log"), R("alive"), R("hist")>>

(* TLS-wrapped http / socks listener (listeners/http.rs create_context): the TLS accept waits for the client before   *)
(* the context exists, with no lock held                                                                          *)
HttpTls(c, x, up) == <<P(c)>> \o Http(c, x, up)
(* a variant that creates the context first and performs the TLS accept under its write lock (self-test: violates) *)
HttpTlsLocked(c, x, up) == <<A("alive", "w"), R("alive"), A(x, "w"), P(c), R(x), P(c), A(x, "w"), R(x),
                             A(x, "r"), A("rules", "r"), R("rules"), R(x), P(up)>>
T_Tasks == {"h1", "f3", "live", "gc"}
ProgTls == [t \in T_Tasks |-> CASE t = "h1" -> HttpTls("c1", "ctx1", "up1") [] t = "f3" -> HttpTls("c3", "ctx3", "up3")
                                 [] t = "live" -> Live [] t = "gc" -> Gc]
ProgTlsLocked == [ProgTls EXCEPT !["h1"] = HttpTlsLocked("c1", "ctx1", "up1")]
(* the log sink may stall as well *)
L_StallSets == SUBSET {"c1", "log"}
ProgLogLocked == [ProgTls EXCEPT !["gc"] = GcLocked]
MC_Tasks == {"h1", "s2", "f3", "live", "rpost", "gc"}
Q_Tasks == {"h1", "f3", "live", "rpost", "gc"}
MC_Locks == {"alive", "hist", "rules", "ctx1", "ctx2", "ctx3"}
MC_Peers == {"c1", "c2", "c3", "up1", "up2", "up3", "log"}
(* c3 / up3 belong to the fresh connection that must always be served: never stalled *)
MC_StallSets == SUBSET {"c1", "c2", "up1"}
ProgFixed == [t \in MC_Tasks |-> CASE t = "h1" -> Http("c1", "ctx1", "up1") [] t = "s2" -> Socks("c2", "ctx2", "up2")
                                   [] t = "f3" -> Http("c3", "ctx3", "up3") [] t = "live" -> Live
                                   [] t = "rpost" -> RulesPost [] t = "gc" -> Gc]
ProgAsIs == [ProgFixed EXCEPT !["h1"] = HttpAsIs("c1", "ctx1", "up1"), !["f3"] = HttpAsIs("c3", "ctx3", "up3"), !["live"] = LiveAsIs]
=============================================================================

\* C04 focus: close order, FIN vs RST, data still to come from the other side
CONSTANTS
  MaxLen = 4
  Sizes = {1, 3}
  AllowRst = TRUE
INIT Init
NEXT Next
INVARIANT Emit
CHECK_DEADLOCK FALSE

CONSTANTS
  Tasks <- T_Tasks
  Prog <- ProgLogLocked
  Locks <- MC_Locks
  Peers <- MC_Peers
  StallSets <- L_StallSets
INIT Init
NEXT Next
INVARIANT Inv
CHECK_DEADLOCK FALSE

\* 2 clients x 2 datagrams x 2 origins, interleaved, one receive error
CONSTANTS
  Clients <- MC_Clients
  Dgrams <- MC_Dgrams
  Owner <- MC_Owner
  Dst <- MC_Dst
  Origins = {"o1", "o2"}
  MaxErr = 1
INIT Init
NEXT Next
INVARIANT Inv
INVARIANT AllDelivered
CHECK_DEADLOCK FALSE

---------------------------- MODULE MiluGrammar ----------------------------
(* The operator table of milu/readme.md ("Builtin operators and precedence") as data, and the     *)
(* two renderings property C09 talks about:                                                       *)
(*    Full(t)     every operator application parenthesised                                        *)
(*    Minimal(t)  only the parentheses the table makes necessary                                  *)
(*    Sexpr(t)    the tree, printed with the builtin constructor names (what Display of the      *)
(*                parsed Value prints), i.e. the observation point of the property               *)
(* TLC enumerates trees (every operator alone, all ordered pairs, all triples, conditional and    *)
(* let forms in each operand position) and prints one CASE per tree; the harness parses both      *)
(* renderings with the real milu::parser::parse and compares with Sexpr.  Renderings are token    *)
(* sequences; the concrete text is the tokens joined by one blank (filler cases replace one       *)
(* blank by a comment / newline / tab filler).                                                    *)
EXTENDS Naturals, Sequences, FiniteSets, TLC, Json

(* precedence scaled by 10 so that 4.1, 2.5 ... are integers *)
BinOps == {
  [tok |-> "*",   name |-> "Multiply",           prec |-> 60],
  [tok |-> "/",   name |-> "Divide",             prec |-> 60],
  [tok |-> "%",   name |-> "Mod",                prec |-> 60],
  [tok |-> "+",   name |-> "Plus",               prec |-> 50],
  [tok |-> "-",   name |-> "Minus",              prec |-> 50],
  [tok |-> "<<",  name |-> "ShiftLeft",          prec |-> 41],
  [tok |-> ">>",  name |-> "ShiftRight",         prec |-> 41],
  [tok |-> ">>>", name |-> "ShiftRightUnsigned", prec |-> 41],
  [tok |-> "<",   name |-> "Lesser",             prec |-> 40],
  [tok |-> "<=",  name |-> "LesserOrEqual",      prec |-> 40],
  [tok |-> ">",   name |-> "Greater",            prec |-> 40],
  [tok |-> ">=",  name |-> "GreaterOrEqual",     prec |-> 40],
  [tok |-> "==",  name |-> "Equal",              prec |-> 30],
  [tok |-> "!=",  name |-> "NotEqual",           prec |-> 30],
  [tok |-> "=~",  name |-> "Like",               prec |-> 30],
  [tok |-> "!~",  name |-> "NotLike",            prec |-> 30],
  [tok |-> "_:",  name |-> "IsMemberOf",         prec |-> 30],
  [tok |-> "&",   name |-> "BitAnd",             prec |-> 25],
  [tok |-> "^",   name |-> "BitXor",             prec |-> 24],
  [tok |-> "|",   name |-> "BitOr",              prec |-> 23],
  [tok |-> "&&",  name |-> "And",                prec |-> 20],
  [tok |-> "and", name |-> "And",                prec |-> 20],
  [tok |-> "^^",  name |-> "Xor",                prec |-> 15],
  [tok |-> "xor", name |-> "Xor",                prec |-> 15],
  [tok |-> "||",  name |-> "Or",                 prec |-> 10],
  [tok |-> "or",  name |-> "Or",                 prec |-> 10] }

UnOps == { [tok |-> "!", name |-> "Not",      prec |-> 70],
           [tok |-> "~", name |-> "BitNot",   prec |-> 70],
           [tok |-> "-", name |-> "Negative", prec |-> 70] }

PostKinds == {"access", "index", "call"}        \* precedence 80, left-to-right
CondKinds == {"tern", "if", "let"}              \* precedence 0

(* Trees.  k = kind, o = operator record (bin/un), a/b/c = children, p = postfix kind.           *)
Leaf(n) == [k |-> "leaf", n |-> n]
Bin(o, a, b) == [k |-> "bin", o |-> o, a |-> a, b |-> b]
Un(o, a) == [k |-> "un", o |-> o, a |-> a]
Post(p, a, b) == [k |-> "post", p |-> p, a |-> a, b |-> b]   \* a . b | a [ b ] | a ( b )
Cond(c, a, b, d) == [k |-> c, a |-> a, b |-> b, c |-> d]      \* a ? b : c | if a then b else c | let x = a in b (c unused)

Prec(t) == CASE t.k = "leaf" -> 99
             [] t.k = "bin"  -> t.o.prec
             [] t.k = "un"   -> 70
             [] t.k = "post" -> 80
             [] OTHER        -> 0

Paren(s) == <<"(">> \o s \o <<")">>

RECURSIVE Full(_), Minimal(_), Sexpr(_)

Full(t) ==
  CASE t.k = "leaf" -> <<t.n>>
    [] t.k = "bin"  -> Paren(Full(t.a) \o <<t.o.tok>> \o Full(t.b))
    [] t.k = "un"   -> Paren(<<t.o.tok>> \o Full(t.a))
    [] t.k = "post" -> (CASE t.p = "access" -> Paren(Full(t.a) \o <<".">> \o Full(t.b))   \* b is a leaf (field name)
                         [] t.p = "index"  -> Paren(Full(t.a) \o <<"[">> \o Full(t.b) \o <<"]">>)
                         [] t.p = "call"   -> Paren(Full(t.a) \o <<"(">> \o Full(t.b) \o <<")">>))
    [] t.k = "tern" -> Paren(Full(t.a) \o <<"?">> \o Full(t.b) \o <<":">> \o Full(t.c))
    [] t.k = "if"   -> Paren(<<"if">> \o Full(t.a) \o <<"then">> \o Full(t.b) \o <<"else">> \o Full(t.c))
    [] t.k = "let"  -> Paren(<<"let", "x", "=">> \o Full(t.a) \o <<"in">> \o Full(t.b))

(* Parenthesise operand u of an operator when the table requires it:                              *)
(*  left operand of a left-to-right binary operator of precedence p: iff Prec(u) < p              *)
(*  right operand:                                                  iff Prec(u) <= p              *)
(*  operand of a prefix operator (7, right-to-left):                iff Prec(u) < 70              *)
(*  target of a postfix form (8):                                   iff Prec(u) < 80              *)
(*  condition of ?: (0, right-to-left):                             iff Prec(u) <= 0              *)
(*  if / let forms are parenthesised whenever they are an operand                                 *)
IsForm(u) == u.k \in {"if", "let"}
MaybeParen(u, need) == IF need \/ IsForm(u) THEN Paren(Minimal(u)) ELSE Minimal(u)

Minimal(t) ==
  CASE t.k = "leaf" -> <<t.n>>
    [] t.k = "bin"  -> MaybeParen(t.a, Prec(t.a) < t.o.prec) \o <<t.o.tok>> \o MaybeParen(t.b, Prec(t.b) <= t.o.prec)
    [] t.k = "un"   -> <<t.o.tok>> \o MaybeParen(t.a, Prec(t.a) < 70)
    [] t.k = "post" -> (CASE t.p = "access" -> MaybeParen(t.a, Prec(t.a) < 80) \o <<".">> \o Minimal(t.b)
                         [] t.p = "index"  -> MaybeParen(t.a, Prec(t.a) < 80) \o <<"[">> \o Minimal(t.b) \o <<"]">>
                         [] t.p = "call"   -> MaybeParen(t.a, Prec(t.a) < 80) \o <<"(">> \o Minimal(t.b) \o <<")">>)
    [] t.k = "tern" -> MaybeParen(t.a, Prec(t.a) <= 0) \o <<"?">> \o Minimal(t.b) \o <<":">> \o Minimal(t.c)
    [] t.k = "if"   -> <<"if">> \o Minimal(t.a) \o <<"then">> \o Minimal(t.b) \o <<"else">> \o Minimal(t.c)
    [] t.k = "let"  -> <<"let", "x", "=">> \o Minimal(t.a) \o <<"in">> \o Minimal(t.b)

(* Display of the parsed value: Identifier -> <n>; builtin application -> Name(args); a call of   *)
(* an identifier -> <f>(args); let -> Scope([(<x>,e)],body)                                       *)
Sexpr(t) ==
  CASE t.k = "leaf" -> <<"<", t.n, ">">>
    [] t.k = "bin"  -> <<t.o.name, "(">> \o Sexpr(t.a) \o <<",">> \o Sexpr(t.b) \o <<")">>
    [] t.k = "un"   -> <<t.o.name, "(">> \o Sexpr(t.a) \o <<")">>
    [] t.k = "post" -> (CASE t.p = "access" -> <<"Access(">> \o Sexpr(t.a) \o <<",">> \o Sexpr(t.b) \o <<")">>
                         [] t.p = "index"  -> <<"Index(">> \o Sexpr(t.a) \o <<",">> \o Sexpr(t.b) \o <<")">>
                         [] t.p = "call"   -> Sexpr(t.a) \o <<"(">> \o Sexpr(t.b) \o <<")">>)
    [] t.k = "tern" -> <<"If(">> \o Sexpr(t.a) \o <<",">> \o Sexpr(t.b) \o <<",">> \o Sexpr(t.c) \o <<")">>
    [] t.k = "if"   -> <<"If(">> \o Sexpr(t.a) \o <<",">> \o Sexpr(t.b) \o <<",">> \o Sexpr(t.c) \o <<")">>
    [] t.k = "let"  -> <<"Scope([(<x>,">> \o Sexpr(t.a) \o <<")],">> \o Sexpr(t.b) \o <<")">>

---------------------------------------------------------------------------
(* Tree families.  Leaves are distinct identifiers so that operand order is observable.           *)
(* Trees are grown outward by TLC's own state exploration: a state is a tree; a step wraps the     *)
(* current tree into one operand slot of a further operator whose other operands are fresh        *)
(* leaves.  Depth 1 = every operator alone, depth 2 = every ordered pair in every slot, depth 3   *)
(* = every chain of three.  Forks (two operators under a binary one) are a separate initial set.  *)
Ops == [k : {"bin"}, o : BinOps] \cup [k : {"un"}, o : UnOps] \cup [k : {"post"}, p : PostKinds]
         \cup [k : CondKinds]
Arity(op) == CASE op.k = "bin" -> 2 [] op.k = "un" -> 1 [] op.k = "post" -> 2 [] op.k = "let" -> 2 [] OTHER -> 3

(* operand positions in which an arbitrary sub-expression may stand (the field name of an access  *)
(* is always an identifier)                                                                      *)
Slots(op) == IF op.k = "post" /\ op.p = "access" THEN {1} ELSE 1..Arity(op)

Mk(op, args) ==
  CASE op.k = "bin"  -> Bin(op.o, args[1], args[2])
    [] op.k = "un"   -> Un(op.o, args[1])
    [] op.k = "post" -> Post(op.p, args[1], args[2])
    [] op.k = "let"  -> Cond("let", args[1], args[2], Leaf("z"))
    [] OTHER         -> Cond(op.k, args[1], args[2], args[3])

(* fresh leaf names per nesting level *)
LeafName == <<<<"a", "b", "c">>, <<"p", "q", "r">>, <<"u", "v", "w">>, <<"f", "g", "h">>, <<"k", "m", "n">>, <<"s", "y", "j">>>>
Flat(op, lvl) == Mk(op, [i \in 1..Arity(op) |-> Leaf(LeafName[lvl][i])])
Wrap(op, s, inner, lvl) == Mk(op, [i \in 1..Arity(op) |-> IF i = s THEN inner ELSE Leaf(LeafName[lvl][i])])

RepOps == {op \in Ops : op.k # "bin" \/ op.o.tok \in {"*", "+", ">>", "<", ">=", "==", "_:", "&", "^", "|", "&&", "xor", "or"}}

CONSTANTS MaxDepth,   \* 1 singles, 2 pairs, 3 triples
          DeepOps,    \* operator vocabulary used from depth 3 on ("Ops" or "RepOps")
          Forks       \* TRUE: the initial set is the fork family instead of the singles

ForkSet(ops) == {Mk(o, <<Flat(i1, 2), Flat(i2, 3)>>) : o \in {x \in ops : x.k = "bin"}, i1 \in ops, i2 \in ops}

(* blank / comment filler that may replace the single blank between two tokens (C09, 2nd sentence) *)
Fillers == <<"  ", "\n", "\t", " /*c*/ ", "/**/", " #c\n", "#\n", "\r\n", "/* # */", "#/*\n",
             "/***/", "/** d **/", "/* a * b */", "/* x **/", "/****/", "/** a **/ /* b */", "/* / */", "/*/ */", "# a # b\n", " #\r\n">>
EmitF == PrintT(<<"FILL", ToJson(Fillers)>>)

VARIABLES t, d
Init == IF Forks THEN d = MaxDepth /\ t \in ForkSet(DeepOps)
                 ELSE d = 1 /\ t \in {Flat(op, 1) : op \in Ops}
Vocab(depth) == IF depth >= 3 THEN DeepOps ELSE Ops
Next == /\ d < MaxDepth
        /\ d' = d + 1
        /\ \E op \in Vocab(d + 1) : \E s \in Slots(op) : t' = Wrap(op, s, t, d + 1)

(* sanity of the renderings themselves: Minimal never has more tokens than Full *)
RenderSane == Len(Minimal(t)) <= Len(Full(t))
Emit == PrintT(<<"CASE", ToJson([depth |-> d, min |-> Minimal(t), full |-> Full(t), sexpr |-> Sexpr(t)])>>)
=============================================================================

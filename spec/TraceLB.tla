------------------------------- MODULE TraceLB -------------------------------
(* impl -> spec: the lb_select events of the real LoadBalanceConnector (emitted next to the        *)
(* fetch_add / hash / choose), merged with what the recording member connectors and the contexts    *)
(* observed.  Round robin is validated in two kinds of run (Hdr.mode):                             *)
(*   "seq"   one task selects: emission order is selection order and every event must be SelectRR   *)
(*           of the spec (the rotation, hence the window law over consecutive selections);         *)
(*   "conc"  many tasks select at once: the order of the log is not the order of the atomic steps, *)
(*           so only what is order-independent is demanded: members only, and over the k*n          *)
(*           selections of the run every position of the member list exactly k times (a lost or    *)
(*           duplicated ticket of a non-atomic counter breaks this).                              *)
(* The hook's ticket field is deliberately not used: the law is about members, not about how the   *)
(* counter is represented.  `obs` events state, per request, the member that was invoked and the     *)
(* connector name recorded on the context; both must be the selected member.                        *)
EXTENDS LB, Json, IOUtils, TLC

Rec == ndJsonDeserialize(IOEnv.TRACE)
Hdr == Rec[1]     \* {"ev":"hdr","members":[..],"algo":..}
TraceMembers == Hdr.members
TraceKeys == {Hdr.keys[i] : i \in 1..Len(Hdr.keys)}
TraceH == [k \in TraceKeys |-> 0]

VARIABLES l, lastSel
tvars == <<vars, l, lastSel>>
TraceInit == Init /\ l = 2 /\ lastSel = ""
IsEvent(e) == l <= Len(Rec) /\ Rec[l].ev = e /\ l' = l + 1

TRR == /\ IsEvent("lb_select") /\ Rec[l].algo = "rr" /\ Hdr.mode = "seq"
       /\ SelectRR(1) /\ sel'[Len(sel')].member = Rec[l].member /\ lastSel' = Rec[l].member
TRRConc == /\ IsEvent("lb_select") /\ Rec[l].algo = "rr" /\ Hdr.mode = "conc"
           /\ Rec[l].member \in MemberSet
           /\ sel' = Append(sel, [algo |-> "rr", ticket |-> 0, member |-> Rec[l].member])
           /\ lastSel' = Rec[l].member /\ UNCHANGED <<idx, hmap>>
(* the hash function is not known to the spec: the first use of a key fixes its member, later uses must agree *)
THash == /\ IsEvent("lb_select") /\ Rec[l].algo = "hash"
         /\ Rec[l].member \in MemberSet
         /\ (hmap[Rec[l].key] = "" \/ hmap[Rec[l].key] = Rec[l].member)
         /\ hmap' = [hmap EXCEPT ![Rec[l].key] = Rec[l].member]
         /\ sel' = Append(sel, [algo |-> "hash", key |-> Rec[l].key, member |-> Rec[l].member])
         /\ lastSel' = Rec[l].member /\ UNCHANGED idx
TRandom == /\ IsEvent("lb_select") /\ Rec[l].algo = "random"
           /\ SelectRandom(1) /\ sel'[Len(sel')].member = Rec[l].member /\ lastSel' = Rec[l].member
(* per request: the member invoked is the connector recorded on the context *)
TObs == /\ IsEvent("obs")
        /\ Rec[l].recorded = Rec[l].invoked /\ Rec[l].invoked \in MemberSet
        /\ UNCHANGED <<vars, lastSel>>
(* totals: the members invoked are exactly the members selected; with `complete` every member was used *)
TSum == /\ IsEvent("sum")
        /\ \A i \in 1..N : Rec[l].invoked[Members[i]] = Count(sel, Members[i])
        /\ Rec[l].total = Len(sel)
        /\ (Hdr.algo # "hash" => {sel[j].member : j \in 1..Len(sel)} = MemberSet)   \* rr / random: every member was used
        \* round robin: a run of k*n selections holds every member exactly k times its multiplicity in the list
        /\ ((Hdr.algo = "rr" /\ Len(sel) % N = 0) =>
               \A i \in 1..N : Count(sel, Members[i]) = (Len(sel) \div N) * Cardinality({j \in 1..N : Members[j] = Members[i]}))
        /\ UNCHANGED <<vars, lastSel>>
(* a contended run without per-selection events: only the totals; k*n selections, every position k times *)
THammer == /\ IsEvent("hammer") /\ Rec[l].total % N = 0
           /\ \A i \in 1..N : Rec[l].counts[Members[i]] = (Rec[l].total \div N) * Cardinality({j \in 1..N : Members[j] = Members[i]})
           /\ UNCHANGED <<vars, lastSel>>
TraceNext == THammer \/ TRR \/ TRRConc \/ THash \/ TRandom \/ TObs \/ TSum
TraceSpec == TraceInit /\ [][TraceNext]_tvars

(* TicketsExact and HashStable are enforced step by step by TRR (ticket = idx) and THash (hmap);       *)
(* re-evaluating the quantified invariants on a log of thousands of selections would be quadratic.  *)
(* after the whole log: every member was used (random: non-zero frequency; rr: complete windows) *)
AllUsed == \A i \in 1..N : \E j \in 1..Len(sel) : sel[j].member = Members[i]
TraceAccepted ==
    LET d == TLCGet("stats").diameter IN
    IF d = Len(Rec) THEN PrintT(<<"TRACE-ACCEPTED", Len(Rec)>>)
    ELSE /\ PrintT(<<"TRACE-REJECTED", "matched", d, "of", Len(Rec), "first unmatched",
                     IF d + 1 <= Len(Rec) THEN ToJson(Rec[d + 1]) ELSE "-">>)
         /\ FALSE
=============================================================================

------------------------------- MODULE TraceLB -------------------------------
(* impl -> spec: the lb_select events of the real LoadBalanceConnector (emitted next to the        *)
(* fetch_add / hash / choose), recorded while many tasks select concurrently, merged with what the *)
(* recording member connectors and the contexts observed.  Round-robin events are replayed in      *)
(* ticket order: a duplicated or skipped ticket (a non-atomic counter) cannot be matched by        *)
(* SelectRR.  `obs` events state, per request, the member that was invoked and the connector name   *)
(* recorded on the context; both must be the selected member.                                      *)
EXTENDS LB, Json, IOUtils, TLC

Rec == ndJsonDeserialize(IOEnv.TRACE)
Hdr == Rec[1]     \* {"ev":"hdr","members":[..],"algo":..}
TraceMembers == Hdr.members
TraceKeys == {Hdr.keys[i] : i \in 1..Len(Hdr.keys)}
TraceH == [k \in TraceKeys |-> 0]

VARIABLES l, lastSel
tvars == <<vars, l, lastSel>>
TraceInit == Init /\ l = 2 /\ lastSel = ""
IsEvent(e) == l <= Len(Rec) /\ Rec[l].ev = e /\ l' = l + 1

TRR == /\ IsEvent("lb_select") /\ Rec[l].algo = "rr"
       /\ Rec[l].ticket = idx /\ Rec[l].n = N
       /\ SelectRR(1) /\ sel'[Len(sel')].member = Rec[l].member /\ lastSel' = Rec[l].member
(* the hash function is not known to the spec: the first use of a key fixes its member, later uses must agree *)
THash == /\ IsEvent("lb_select") /\ Rec[l].algo = "hash"
         /\ Rec[l].member \in MemberSet
         /\ (hmap[Rec[l].key] = "" \/ hmap[Rec[l].key] = Rec[l].member)
         /\ hmap' = [hmap EXCEPT ![Rec[l].key] = Rec[l].member]
         /\ sel' = Append(sel, [algo |-> "hash", key |-> Rec[l].key, member |-> Rec[l].member])
         /\ lastSel' = Rec[l].member /\ UNCHANGED idx
TRandom == /\ IsEvent("lb_select") /\ Rec[l].algo = "random"
           /\ SelectRandom(1) /\ sel'[Len(sel')].member = Rec[l].member /\ lastSel' = Rec[l].member
(* per request: the member invoked is the connector recorded on the context *)
TObs == /\ IsEvent("obs")
        /\ Rec[l].recorded = Rec[l].invoked /\ Rec[l].invoked \in MemberSet
        /\ UNCHANGED <<vars, lastSel>>
(* totals: the members invoked are exactly the members selected; with `complete` every member was used *)
TSum == /\ IsEvent("sum")
        /\ \A i \in 1..N : Rec[l].invoked[Members[i]] = Count(sel, Members[i])
        /\ Rec[l].total = Len(sel)
        /\ (Hdr.algo # "hash" => {sel[j].member : j \in 1..Len(sel)} = MemberSet)   \* rr / random: every member was used
        /\ UNCHANGED <<vars, lastSel>>
TraceNext == TRR \/ THash \/ TRandom \/ TObs \/ TSum
TraceSpec == TraceInit /\ [][TraceNext]_tvars

(* TicketsExact and HashStable are enforced step by step by TRR (ticket = idx) and THash (hmap);       *)
(* re-evaluating the quantified invariants on a log of thousands of selections would be quadratic.  *)
(* after the whole log: every member was used (random: non-zero frequency; rr: complete windows) *)
AllUsed == \A i \in 1..N : \E j \in 1..Len(sel) : sel[j].member = Members[i]
TraceAccepted ==
    LET d == TLCGet("stats").diameter IN
    IF d = Len(Rec) THEN PrintT(<<"TRACE-ACCEPTED", Len(Rec)>>)
    ELSE /\ PrintT(<<"TRACE-REJECTED", "matched", d, "of", Len(Rec), "first unmatched",
                     IF d + 1 <= Len(Rec) THEN ToJson(Rec[d + 1]) ELSE "-">>)
         /\ FALSE
=============================================================================

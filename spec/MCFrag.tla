------------------------------ MODULE MCFrag ------------------------------
(* Bounded instance of Frag: frame A (id 1, 2 fragments), B (id 2, 3 fragments), C (id 1 again,   *)
(* 2 fragments: id reuse after wrap), U (id 4, unfragmented).                                     *)
EXTENDS Frag, Json

MC_Frames == {"A", "B", "C", "U"}
MC_NFrag == [f \in MC_Frames |-> CASE f = "A" -> 2 [] f = "B" -> 3 [] f = "C" -> 2 [] f = "U" -> 1]
(* U (one fragment) shares its wire id with B (three fragments) *)
MC_Wid == [f \in MC_Frames |-> CASE f = "A" -> 1 [] f = "B" -> 2 [] f = "C" -> 1 [] f = "U" -> 2]
MC_Junk == { [kind |-> "short"],
             [kind |-> "total0",  id |-> 1, total |-> 0,   seq |-> 0,   pl |-> <<"junk", 0>>],
             [kind |-> "seqge",   id |-> 1, total |-> 2,   seq |-> 2,   pl |-> <<"junk", 0>>],
             [kind |-> "seqge",   id |-> 3, total |-> 2,   seq |-> 5,   pl |-> <<"junk", 0>>],
             [kind |-> "big",     id |-> 1, total |-> 200, seq |-> 0,   pl |-> <<"junk", 0>>],
             [kind |-> "big",     id |-> 3, total |-> 130, seq |-> 129, pl |-> <<"junk", 0>>],
             [kind |-> "big",     id |-> 3, total |-> 128, seq |-> 0,   pl |-> <<"junk", 0>>],
             [kind |-> "incons",  id |-> 1, total |-> 3,   seq |-> 1,   pl |-> <<"junk", 0>>],
             [kind |-> "incons",  id |-> 2, total |-> 2,   seq |-> 0,   pl |-> <<"junk", 0>>],
             [kind |-> "orphan",  id |-> 3, total |-> 2,   seq |-> 0,   pl |-> <<"junk", 0>>] }

MCT_Frames == {"A", "B", "C"}
MCT_Junk == { [kind |-> "incons",  id |-> 1, total |-> 3,   seq |-> 1,   pl |-> <<"junk", 0>>],
              [kind |-> "orphan",  id |-> 3, total |-> 2,   seq |-> 0,   pl |-> <<"junk", 0>>] }

(* timed behaviours are emitted when the clock bound is reached *)
EmitT == (clock = MaxClock /\ nops = MaxOps) => PrintT(<<"CASE", ToJson([h |-> hist])>>)
Emit == Done => PrintT(<<"CASE", ToJson([h |-> hist])>>)
=============================================================================

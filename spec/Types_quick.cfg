CONSTANTS
  MaxDepth = 2
  RepAtoms <- RepTiny
  Wide = TRUE
INIT Init
NEXT Next
INVARIANT RefSound
INVARIANT Emit
CHECK_DEADLOCK FALSE

------------------------------ MODULE MCProxy ------------------------------
(* Bounded instances of Proxy: routing (C02: every rule list up to a length x every request),     *)
(* hot swap (C15: histories of valid/invalid posts interleaved with concurrent deciders).          *)
EXTENDS Proxy, Json

Src(txt, host, ty, in10) == [txt |-> txt, host |-> host, type |-> ty, in10 |-> in10]
Sources == { Src("10.0.0.1:1000", "10.0.0.1", "ipv4", TRUE), Src("192.168.1.1:2", "192.168.1.1", "ipv4", FALSE),
             Src("[::1]:3", "::1", "ipv6", FALSE) }
Tgt(kind, host, port) == [kind |-> kind, host |-> host, port |-> port]
Targets == { Tgt("domain", "ex.com", 80), Tgt("ipv4", "10.2.3.4", 443), Tgt("ipv6", "2001:db8::1", 80), Tgt("domain", "7", 65535) }
MC_ReqSet == [listener : {"l1", "l2"}, source : Sources, target : Targets, feature : {"TcpForward", "UdpForward", "UdpBind"}]

MC_Connectors == [ A |-> [features |-> {"TcpForward"}, fails |-> FALSE],
                   B |-> [features |-> {"TcpForward", "UdpForward", "UdpBind"}, fails |-> FALSE],
                   C |-> [features |-> {"TcpForward", "UdpForward"}, fails |-> TRUE] ]

Rule(f, t) == [f |-> f, t |-> t]
RulesOver(fs, ts) == {Rule(f, t) : f \in fs, t \in ts}
ListsUpTo2(R) == {<<>>} \cup {<<a>> : a \in R} \cup {<<a, b>> : a \in R, b \in R}
ListsOf3(R) == {<<a, b, c>> : a \in R, b \in R, c \in R}

RouteQuick == {<<l>> : l \in ListsUpTo2(RulesOver(FilterIds, {"A", "B", "deny"}))}
RouteFull == {<<l>> : l \in ListsUpTo2(RulesOver(FilterIds, {"A", "B", "C", "deny"}))
                          \cup ListsOf3(RulesOver({"none", "false", "err", "l1", "udp", "p80", "src10"}, {"A", "B", "deny"}))}

RuleJson(r) == [filter |-> FilterText(r.f), fid |-> r.f, target |-> r.t]
(* ---- C15: histories of posts ---- *)
V1 == <<Rule("l1", "A"), Rule("none", "B")>>
V2 == <<Rule("p80", "B"), Rule("udp", "deny"), Rule("none", "A")>>
V3 == <<Rule("none", "deny")>>
Isyn == <<Rule("syntax", "A"), Rule("none", "B")>>
Ityp == <<Rule("none", "A"), Rule("illtyped", "B")>>
Itgt == <<Rule("none", "A"), Rule("l1", "Zed")>>
(* two long lists that never deny a TCP request, built so that a decision taken on a prefix of one and the tail of the  *)
(* other (a request that does not decide on ONE snapshot) denies it: neither list explains that outcome                  *)
Pad == [i \in 1..3 |-> Rule("udp", "deny")]
PadL == [i \in 1..40 |-> Rule("udp", "deny")]
V7L == PadL \o <<Rule("none", "A")>>
V8L == <<Rule("none", "B")>> \o PadL \o <<Rule("none", "deny")>>
V7 == Pad \o <<Rule("none", "A")>>
V8 == <<Rule("none", "B")>> \o Pad \o <<Rule("none", "deny")>>
SwapLists == {V1, V2, V3, Isyn, Ityp, Itgt}
Hist(n) == UNION {{<<V1>> \o h : h \in [1..k -> SwapLists]} : k \in 0..n}
SwapHist2 == Hist(2)
SwapHist3 == Hist(3)
(* for the replayed histories also lists that are prefixes / extensions of one another and the empty list:      *)
(* "nothing changed" shortcuts and element-wise comparisons must not mistake them for each other               *)
V4 == <<Rule("l1", "A")>>                     \* prefix of V1
V5 == <<Rule("none", "A")>>                   \* prefix of Ityp and Itgt
V0 == <<>>
GenLists == SwapLists \cup {V4, V5, V0}
GenHist3 == UNION {{<<V1>> \o h : h \in [1..k -> GenLists]} : k \in 0..3}
ProbeReqs == << [listener |-> "l1", source |-> Src("10.0.0.1:1000", "10.0.0.1", "ipv4", TRUE), target |-> Tgt("domain", "ex.com", 80), feature |-> "TcpForward"],
                [listener |-> "l2", source |-> Src("10.0.0.1:1000", "10.0.0.1", "ipv4", TRUE), target |-> Tgt("domain", "ex.com", 80), feature |-> "TcpForward"],
                [listener |-> "l2", source |-> Src("[::1]:3", "::1", "ipv6", FALSE), target |-> Tgt("ipv4", "10.2.3.4", 443), feature |-> "TcpForward"],
                [listener |-> "l1", source |-> Src("192.168.1.1:2", "192.168.1.1", "ipv4", FALSE), target |-> Tgt("ipv4", "10.2.3.4", 443), feature |-> "UdpForward"] >>
SwapReqSet == {ProbeReqs[i] : i \in 1..Len(ProbeReqs)}

RECURSIVE InForce(_, _)
InForce(h, k) == IF k = 1 THEN h[1] ELSE IF Valid(h[k]) THEN h[k] ELSE InForce(h, k - 1)
ListJson(l) == [i \in 1..Len(l) |-> RuleJson(l[i])]
EmitSwap == (postPhase = "idle" /\ Len(postOk) = Len(lists)) =>
   PrintT(<<"CASE", ToJson([lists |-> [k \in 1..Len(lists) |-> ListJson(lists[k])], ok |-> postOk,
                            reqs |-> ProbeReqs,
                            decisions |-> [k \in 1..Len(lists) |-> [q \in 1..Len(ProbeReqs) |->
                                               Decision(InForce(lists, k), ProbeReqs[q], Connectors)]]])>>)
(* in every state the list in force is the last valid one among those whose post has finished (or is being swapped in) *)
InForceInv == LET done == Len(postOk) IN
              rules = InForce(lists, done) \/ (postPhase = "accepted" /\ rules = InForce(lists, posting))

EmitRoute == (\A c \in Conns : Terminal(c)) =>
   PrintT(<<"CASE", ToJson([rules |-> [i \in 1..Len(lists[1]) |-> RuleJson(lists[1][i])],
                            reqs |-> [c \in Conns |-> reqs[c]],
                            expect |-> [c \in Conns |-> [target |-> Target(c), phase |-> phase[c], evals |-> evals[c],
                                                          replies |-> replies[c], log |-> log[c]]]])>>)
=============================================================================

\* liveness under fairness, no idle timeout, smaller constants
CONSTANTS
  NTok = 2
  BufSz = 1
  MaxEarly = 1
  Idle = 0
  MaxClock = 0
SPECIFICATION Spec
INVARIANT Inv
PROPERTY FinDelivered
PROPERTY BothFinFinishes
CHECK_DEADLOCK FALSE

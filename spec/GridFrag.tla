------------------------------ MODULE GridFrag ------------------------------
(* Size grid of the fragmenter (C11: "every frame size up to the maximum and every MTU").          *)
(* The harness ran the real make_fragments / reassemble on real frames for a grid of (len, mtu)    *)
(* and recorded what it observed; this module is the oracle: the arithmetic of the wire format.   *)
EXTENDS Naturals, Sequences, TLC, Json, IOUtils

Rec == ndJsonDeserialize(IOEnv.GRID)

FragCount(len, mtu) == (len + (mtu - 4) - 1) \div (mtu - 4)
Representable(len, mtu) == FragCount(len, mtu) <= 127     \* total is a 7-bit field

(* a representable frame: exact split, correct headers, and every delivery order tried          *)
(* (in order, reverse, rotated, duplicated, shuffled) yields the frame exactly once, queue empty *)
GoodRec(r) == /\ r.make = "ok"
              /\ r.count = FragCount(r.len, r.mtu)
              /\ r.hdr_ok /\ r.payload_ok
              /\ r.next_id = (r.id + 1) % 65536
              /\ \A o \in DOMAIN r.orders : r.orders[o] = <<1, 1, 0>>

(* an unrepresentable frame must be refused (nothing emitted), never emitted with a wrapped count *)
RefusedRec(r) == r.make = "ok" /\ r.count = 0

Verdict(r) == IF Representable(r.len, r.mtu)
              THEN IF GoodRec(r) THEN "ok" ELSE "bad"
              ELSE IF RefusedRec(r) THEN "ok" ELSE "unrepresentable_not_refused"

VARIABLE i
Init == i = 1
Next == i <= Len(Rec) /\ i' = i + 1
Emit == (i <= Len(Rec) /\ Verdict(Rec[i]) # "ok") =>
           PrintT(<<"CASE", ToJson([idx |-> i, verdict |-> Verdict(Rec[i]), len |-> Rec[i].len, mtu |-> Rec[i].mtu,
                                    expect |-> FragCount(Rec[i].len, Rec[i].mtu)])>>)
=============================================================================

CONSTANTS
  MaxDepth = 3
  DeepOps <- Ops
  Forks = TRUE
INIT Init
NEXT Next
INVARIANT RenderSane
INVARIANT Emit
CHECK_DEADLOCK FALSE

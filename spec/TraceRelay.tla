----------------------------- MODULE TraceRelay -----------------------------
(* impl -> spec for C01 / C04 / C16(counters): the events one tunnel of the real proxy emitted       *)
(* (relay_begin, xfer, eof, half_done, state; ordered by the proxy's own sequence number), framed by *)
(* what the driver did (first record `scn`: how many payload bytes each side wrote and how it ended) *)
(* and what it observed at the end (last record `obs`: bytes received per direction - the driver has  *)
(* checked that they are the expected prefix of the payload stream - and whether end-of-stream was    *)
(* seen).  One token = one byte.  Environment steps and the unlogged read of a loop iteration are     *)
(* silent steps of the spec, bounded by `scn`.  Several tunnels are concatenated with `scn` records.  *)
EXTENDS Relay, Json, IOUtils

Rec == ndJsonDeserialize(IOEnv.TRACE)
VARIABLES l, scn
tvars == <<vars, l, scn>>

Dir(from) == IF from = "client" THEN "c2s" ELSE "s2c"
NoScn == [sent |-> [c2s |-> 0, s2c |-> 0], ending |-> [c2s |-> "open", s2c |-> "open"], finned |-> [c2s |-> FALSE, s2c |-> FALSE]]
TraceInit == Init /\ l = 1 /\ scn = NoScn
More == l <= Len(Rec)
IsEvent(e) == More /\ Rec[l].ev = e /\ l' = l + 1

(* a new tunnel: reset everything *)
TScn == /\ IsEvent("scn")
        /\ scn' = [sent |-> Rec[l].sent, ending |-> Rec[l].ending, finned |-> Rec[l].finned]
        /\ phase' = "handshake"
        /\ sent' = [d \in Dirs |-> 0] /\ srcSt' = [d \in Dirs |-> "open"]
        /\ wireIn' = [d \in Dirs |-> <<>>] /\ ahead' = [d \in Dirs |-> <<>>] /\ pbuf' = [d \in Dirs |-> <<>>]
        /\ wireOut' = [d \in Dirs |-> <<>>] /\ finOut' = [d \in Dirs |-> FALSE]
        /\ recv' = [d \in Dirs |-> <<>>] /\ eofSeen' = [d \in Dirs |-> FALSE]
        /\ half' = [d \in Dirs |-> "run"] /\ result' = "run" /\ closedBoth' = FALSE
        /\ stat' = [d \in Dirs |-> 0] /\ log' = <<"Connected">>
        /\ clock' = 0 /\ last' = [d \in Dirs |-> 0] /\ logged' = [d \in Dirs |-> FALSE]

TBegin == /\ IsEvent("relay_begin")
          /\ Len(ahead["c2s"]) = Rec[l].early_c2s /\ Len(ahead["s2c"]) = Rec[l].early_s2c
          /\ RelayStart /\ UNCHANGED scn
TXfer == /\ IsEvent("xfer")
         /\ LET d == Dir(Rec[l].from) IN Len(pbuf[d]) = Rec[l].n /\ ProxyWrite(d)
         /\ UNCHANGED scn
TEof == /\ IsEvent("eof") /\ ProxyEof(Dir(Rec[l].from)) /\ UNCHANGED scn
THalf == /\ IsEvent("half_done") /\ HalfShutdown(Dir(Rec[l].from)) /\ UNCHANGED scn
TState == /\ IsEvent("state") /\ UNCHANGED scn
          /\ CASE Rec[l].st = "ClientShutdown" -> LogHalf("c2s")
               [] Rec[l].st = "ServerShutdown" -> LogHalf("s2c")
               [] Rec[l].st = "Terminated" -> Finish
               [] Rec[l].st = "ErrorOccured" -> (Abort \/ IdleAbort)
               [] OTHER -> FALSE
(* proxy-side byte counters recorded with the connection (C16) *)
TDrop == /\ IsEvent("drop") /\ UNCHANGED <<vars, scn>>
         /\ result # "run"
         /\ (result = "finished" => (Rec[l].c_bytes = stat["c2s"] /\ Rec[l].s_bytes = stat["s2c"]))
(* an endpoint reset the connection: the spec's Abort is fair, so the surviving endpoint sees the tunnel go away *)
TAbortSeen == /\ IsEvent("abort_seen") /\ UNCHANGED <<vars, scn>>
              /\ Rec[l].ok /\ closedBoth
(* the driver's final observation *)
TObs == /\ IsEvent("obs") /\ UNCHANGED <<vars, scn>>
        /\ \A d \in Dirs : /\ Len(recv[d]) = Rec[l].recv[d]
                           /\ eofSeen[d] = Rec[l].eof[d]
                           /\ sent[d] = scn.sent[d]
                           /\ (srcSt[d] = scn.ending[d] \/ (scn.ending[d] = "any" /\ srcSt[d] # "open"))
                           /\ (wireOut[d] = <<>> \/ srcSt[Opp(d)] = "rst" \/ srcSt[d] = "rst" \/ result = "error")

(* ending "any": the peer of this proxy is another proxy hop, which turns an origin's reset into a close   *)
(* (FIN, or RST when unread data is pending): either is possible.                                        *)
(* silent: environment within the bounds of the scenario, handshake read-ahead, the read of a loop iteration *)
Silent == /\ l' = l /\ UNCHANGED scn /\ More /\ Rec[l].ev # "scn"
          /\ \E d \in Dirs :
                \/ (sent[d] < scn.sent[d] /\ SrcWrite(d))
                \/ ((scn.ending[d] \in {"fin", "any"} \/ scn.finned[d]) /\ sent[d] = scn.sent[d] /\ SrcFin(d))
                \/ (scn.ending[d] \in {"rst", "any"} /\ sent[d] = scn.sent[d] /\ SrcRst(d))
                \/ ReadAhead(d) \/ ProxyRead(d) \/ DstRecv(d) \/ DstEof(d)

TraceNext == TScn \/ TBegin \/ TXfer \/ TEof \/ THalf \/ TState \/ TDrop \/ TAbortSeen \/ TObs \/ Silent
TraceSpec == TraceInit /\ [][TraceNext]_tvars

Track == IF l > TLCGet(42) THEN TLCSet(42, l) ELSE TRUE
ASSUME TLCSet(42, 0)
TraceAccepted ==
    IF TLCGet(42) > Len(Rec) THEN PrintT(<<"TRACE-ACCEPTED", Len(Rec)>>)
    ELSE /\ PrintT(<<"TRACE-REJECTED", "longest explained prefix", TLCGet(42) - 1, "of", Len(Rec),
                     "first unexplained", IF TLCGet(42) <= Len(Rec) THEN ToJson(Rec[TLCGet(42)]) ELSE "-">>)
         /\ FALSE
=============================================================================

------------------------------- MODULE Cidr -------------------------------
(* Standard CIDR containment (the meaning of the cidr_match builtin, C02): an address is a bit      *)
(* string; it is in net/len iff its first len bits equal the network's.                             *)
(* (1) Design check on 6-bit addresses: the bit-prefix definition agrees with the numeric range    *)
(*     definition  net <= a < net + 2^(6-len)  for every address, network and length (TLC, exhaustive). *)
(* (2) Vector generation for the real builtin: for IPv4 (32 bits) and IPv6 (128 bits), for every   *)
(*     prefix length: the network itself, the last address of the block, the addresses just        *)
(*     outside (last prefix bit flipped, first bit flipped), a host-bit flip (inside), /0, full     *)
(*     length, and family mismatch; each with its expected answer.                                  *)
EXTENDS Naturals, Sequences, FiniteSets, TLC, Json

Contains(net, len, a) == SubSeq(net, 1, len) = SubSeq(a, 1, len)

(* ---- (1) 6-bit exhaustive ---- *)
W == 6
Bits(n, w) == [i \in 1..w |-> (n \div (2 ^ (w - i))) % 2]
Val(b) == LET RECURSIVE V(_, _)
              V(i, acc) == IF i > Len(b) THEN acc ELSE V(i + 1, 2 * acc + b[i])
          IN V(1, 0)
Canon(n, len) == (n \div (2 ^ (W - len))) * (2 ^ (W - len))        \* host bits zero
SmallOK == \A n \in 0..(2 ^ W - 1), len \in 0..W, a \in 0..(2 ^ W - 1) :
              LET net == Canon(n, len) IN
              Contains(Bits(net, W), len, Bits(a, W)) <=> (net <= a /\ a < net + 2 ^ (W - len))
ASSUME SmallOK

(* ---- (2) vectors ---- *)
Pattern(w, k) == [i \in 1..w |-> IF (i * k) % 3 = 0 THEN 1 ELSE 0]        \* some fixed bit patterns
Zero(w) == [i \in 1..w |-> 0]
NetOf(p, len) == [i \in 1..Len(p) |-> IF i <= len THEN p[i] ELSE 0]
Flip(b, i) == [b EXCEPT ![i] = 1 - @]
Ones(b, from) == [i \in 1..Len(b) |-> IF i >= from THEN 1 ELSE b[i]]

Vectors(w) == UNION { LET net == NetOf(Pattern(w, k), len) IN
    {[w |-> w, net |-> net, len |-> len, a |-> net, why |-> "network address"],
     [w |-> w, net |-> net, len |-> len, a |-> Ones(net, len + 1), why |-> "last address"]}
    \cup (IF len >= 1 THEN {[w |-> w, net |-> net, len |-> len, a |-> Flip(net, len), why |-> "last prefix bit flipped"],
                            [w |-> w, net |-> net, len |-> len, a |-> Flip(Ones(net, len + 1), 1), why |-> "first bit flipped"]} ELSE {})
    \cup (IF len < w THEN {[w |-> w, net |-> net, len |-> len, a |-> Flip(net, len + 1), why |-> "first host bit flipped"],
                           [w |-> w, net |-> net, len |-> len, a |-> Flip(net, w), why |-> "last host bit flipped"]} ELSE {})
  : len \in 0..w, k \in {1, 2} }

VARIABLE v
Init == v \in Vectors(32) \cup Vectors(128)
Next == UNCHANGED v
Emit == PrintT(<<"CASE", ToJson([w |-> v.w, net |-> v.net, len |-> v.len, a |-> v.a, why |-> v.why,
                                 expect |-> Contains(v.net, v.len, v.a)])>>)
=============================================================================

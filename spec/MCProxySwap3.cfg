\* two concurrent deciders x every history of up to 2 posts (valid, syntax error, type error, unknown target)
CONSTANTS
  Conns = {1, 2}
  ReqSet <- SwapReqSet
  ListSeqs <- SwapHist3
  Connectors <- MC_Connectors
INIT Init
NEXT Next
INVARIANT Inv
INVARIANT InForceInv
CHECK_DEADLOCK FALSE

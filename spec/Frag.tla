------------------------------- MODULE Frag -------------------------------
(* Datagram fragmenter / reassembly queue of src/common/fragment.rs (used by the QUIC datagram   *)
(* channel, src/common/quic.rs).  One action per public call of `Fragments`:                      *)
(*   Send(f)      = Fragments::make_fragments(mtu, &mut id, frame)   (id allocation, fragment set) *)
(*   Reasm(w)     = Fragments::reassemble(datagram)                  (w: a wire fragment)          *)
(*   Tick         = one second passes, then Fragments::timer()                                     *)
(* Wire fragment = [id, total, seq, pl]; pl is the payload identity <<frame, seq>> or "junk".      *)
(* The spec describes the behaviour property C11 asks for; the implementation is bound to it by   *)
(* replaying every bounded behaviour (spec -> impl) and by validating recorded call traces         *)
(* (impl -> spec, TraceFrag.tla).                                                                  *)
EXTENDS Naturals, Sequences, FiniteSets, TLC

CONSTANTS Frames,     \* model frames
          NFrag,      \* [Frames -> 1..] number of fragments of each frame
          Wid,        \* [Frames -> Nat] wire id; two frames sharing an id = id reuse after wrap
          Timeout,    \* reassembly timeout, in ticks
          MaxOps,     \* bound on the number of calls
          MaxClock,   \* bound on ticks
          MaxDup,     \* bound on deliveries of one fragment
          Junk        \* set of malformed / inconsistent wire fragments that may be injected

VARIABLES queue,      \* [Ids -> entry | NoEntry]
          timerq,     \* FIFO of [id, deadline, gen]
          clock,
          out,        \* sequence of reassembled results (frame name, or "garbage")
          sent,       \* frames already fragmented and sent
          deliv,      \* [Frames -> [0..NFrag-1 -> count]]
          retired,    \* frames whose wire id has been reused by a later frame
          taint,      \* ids for which a junk fragment with that id was ever accepted into the queue
          gen,        \* generation counter for queue entries
          nops,
          hist        \* call log (hidden from the MC view; the replay input)

vars == <<queue, timerq, clock, out, sent, retired, deliv, taint, gen, nops, hist>>
view == <<queue, timerq, clock, out, sent, retired, deliv, taint, gen, nops>>

NoEntry == [total |-> 0]
Ids == {Wid[f] : f \in Frames} \cup {w.id : w \in {j \in Junk : j.kind # "short"}}

GoodFrags(f) == {[kind |-> "good", id |-> Wid[f], total |-> NFrag[f], seq |-> s, pl |-> <<f, s>>]
                    : s \in 0..(NFrag[f]-1)}

(* A datagram the receiver must ignore outright, whatever its state *)
Malformed(w) == \/ w.kind = "short"
                \/ w.total = 0
                \/ w.total > 127      \* total and seq are 7-bit fields
                \/ w.seq >= w.total

Assembled(parts) ==
    IF \E f \in Frames : /\ Len(parts) = NFrag[f]
                         /\ \A i \in 1..Len(parts) : parts[i] = <<f, i-1>>
    THEN (CHOOSE f \in Frames : /\ Len(parts) = NFrag[f]
                                /\ \A i \in 1..Len(parts) : parts[i] = <<f, i-1>>)
    ELSE "garbage"

QLen == Cardinality({i \in Ids : queue[i] # NoEntry})

Init == /\ queue = [i \in Ids |-> NoEntry]
        /\ timerq = <<>>
        /\ clock = 0
        /\ out = <<>>
        /\ sent = {}
        /\ retired = {}
        /\ deliv = [f \in Frames |-> [s \in 0..(NFrag[f]-1) |-> 0]]
        /\ taint = {}
        /\ gen = 0
        /\ nops = 0
        /\ hist = <<>>

(* Environment assumption (the property's premise for id reuse): a frame that reuses a wire id    *)
(* is sent only after every trace of the earlier user of that id has been discarded, and no        *)
(* fragment of the earlier user is delivered afterwards (it is `retired`): with a 16-bit id and    *)
(* no other frame identity on the wire, no receiver could tell such fragments apart.               *)
(* A frame that fits one datagram is never queued: it may share its id with a frame that is still incomplete (another   *)
(* sender on the same connection, or wrap-around) and must come through untouched, without touching that frame.         *)
Retire(f) == IF NFrag[f] = 1 THEN {} ELSE {g \in sent : Wid[g] = Wid[f] /\ NFrag[g] > 1}
Send(f) == /\ f \notin sent
           /\ (NFrag[f] > 1 => (\A g \in sent : (Wid[g] = Wid[f] /\ NFrag[g] > 1) => queue[Wid[f]] = NoEntry))
           /\ (NFrag[f] > 1 => queue[Wid[f]] = NoEntry)
           /\ sent' = sent \cup {f}
           /\ retired' = retired \cup Retire(f)
           /\ hist' = Append(hist, [op |-> "send", f |-> f, id |-> Wid[f], n |-> NFrag[f]])
           /\ UNCHANGED <<queue, timerq, clock, out, deliv, taint, gen, nops>>

Log(pre, w, ret, q) == Append(hist \o pre, [op |-> "reasm", kind |-> w.kind,
                                id |-> IF w.kind = "short" THEN 0 ELSE w.id,
                                total |-> IF w.kind = "short" THEN 0 ELSE w.total,
                                seq |-> IF w.kind = "short" THEN 0 ELSE w.seq,
                                pl |-> IF w.kind = "short" THEN <<>> ELSE w.pl,
                                ret |-> ret, qlen |-> q])

Reasm(w, pre) ==
    /\ nops < MaxOps
    /\ nops' = nops + 1
    /\ IF Malformed(w) THEN
          /\ hist' = Log(pre, w, "none", QLen)
          /\ UNCHANGED <<queue, timerq, out, taint, gen>>
       ELSE IF w.total = 1 THEN      \* unfragmented datagram: never queued
          LET r == Assembled(<<w.pl>>) IN
          /\ out' = Append(out, r)
          /\ hist' = Log(pre, w, r, QLen)
          /\ UNCHANGED <<queue, timerq, taint, gen>>
       ELSE IF queue[w.id] # NoEntry THEN
          LET e == queue[w.id] IN
          IF e.total # w.total \/ w.seq \in e.have THEN   \* inconsistent or duplicate: ignored
             /\ hist' = Log(pre, w, "none", QLen)
             /\ UNCHANGED <<queue, timerq, out, taint, gen>>
          ELSE
             LET have2 == e.have \cup {w.seq}
                 parts2 == [e.parts EXCEPT ![w.seq + 1] = w.pl] IN
             IF have2 = 0..(e.total - 1) THEN
                LET r == Assembled(parts2) IN
                /\ queue' = [queue EXCEPT ![w.id] = NoEntry]
                /\ out' = Append(out, r)
                /\ hist' = Log(pre, w, r, QLen - 1)
                /\ UNCHANGED <<timerq, gen, taint>>
             ELSE
                /\ queue' = [queue EXCEPT ![w.id] = [e EXCEPT !.have = have2, !.parts = parts2]]
                /\ taint' = IF w.kind = "good" THEN taint ELSE taint \cup {w.id}
                /\ hist' = Log(pre, w, "none", QLen)
                /\ UNCHANGED <<timerq, out, gen>>
       ELSE
          /\ queue' = [queue EXCEPT ![w.id] =
                          [total |-> w.total, have |-> {w.seq}, gen |-> gen, deadline |-> clock + Timeout,
                           parts |-> [i \in 1..w.total |-> IF i = w.seq + 1 THEN w.pl ELSE <<>>]]]
          /\ timerq' = Append(timerq, [id |-> w.id, deadline |-> clock + Timeout, gen |-> gen])
          /\ gen' = gen + 1
          /\ taint' = IF w.kind = "good" THEN taint ELSE taint \cup {w.id}
          /\ hist' = Log(pre, w, "none", QLen + 1)
          /\ UNCHANGED out

DeliverGood(f, s) ==
    /\ f \in sent /\ f \notin retired
    /\ deliv[f][s] < MaxDup
    /\ deliv' = [deliv EXCEPT ![f][s] = @ + 1]
    /\ LET w == CHOOSE x \in GoodFrags(f) : x.seq = s IN Reasm(w, <<>>)
    /\ UNCHANGED <<clock, sent, retired>>

Inject(j) ==
    /\ Reasm(j, <<>>)
    /\ UNCHANGED <<clock, sent, retired, deliv>>

(* One second passes and the owner calls timer(): entries whose deadline is in the past are       *)
(* discarded.  A timer record only ever discards the queue entry it was created for (gen).        *)
RECURSIVE Expire(_, _, _)
Expire(tq, q, now) ==
    IF tq = <<>> \/ Head(tq).deadline >= now THEN <<tq, q>>
    ELSE LET h == Head(tq)
             q2 == IF q[h.id] # NoEntry /\ q[h.id].gen = h.gen THEN [q EXCEPT ![h.id] = NoEntry] ELSE q
         IN Expire(Tail(tq), q2, now)

Tick == /\ clock < MaxClock
        /\ clock' = clock + 1
        /\ LET r == Expire(timerq, queue, clock + 1) IN
             /\ timerq' = r[1]
             /\ queue' = r[2]
             /\ hist' = Append(hist, [op |-> "tick",
                               qlen |-> Cardinality({i \in Ids : r[2][i] # NoEntry})])
        /\ UNCHANGED <<out, sent, retired, deliv, taint, gen, nops>>

Next == \/ \E f \in Frames : Send(f)
        \/ \E f \in Frames : \E s \in 0..(NFrag[f]-1) : DeliverGood(f, s)
        \/ \E j \in Junk : Inject(j)
        \/ Tick

Spec == Init /\ [][Next]_vars

(* Generator form: a frame is sent implicitly just before its first fragment is delivered, so     *)
(* that behaviours differing only in when `Send` happened are not enumerated separately.          *)
Sendable(f) == /\ f \notin sent
               /\ queue[Wid[f]] = NoEntry
SendRec(f) == [op |-> "send", f |-> f, id |-> Wid[f], n |-> NFrag[f]]
AutoDeliver(f, s) ==
    /\ deliv[f][s] < MaxDup
    /\ deliv' = [deliv EXCEPT ![f][s] = @ + 1]
    /\ LET w == CHOOSE x \in GoodFrags(f) : x.seq = s IN
         IF f \in sent THEN f \notin retired /\ Reasm(w, <<>>) /\ UNCHANGED <<sent, retired>>
         ELSE /\ Sendable(f) /\ Reasm(w, <<SendRec(f)>>)
              /\ sent' = sent \cup {f} /\ retired' = retired \cup Retire(f)
    /\ UNCHANGED clock
GenNext == \/ \E f \in Frames : \E s \in 0..(NFrag[f]-1) : AutoDeliver(f, s)
           \/ \E j \in Junk : Inject(j)
           \/ Tick

---------------------------------------------------------------------------
(* Properties (C11) *)

Count(seq, x) == Cardinality({i \in 1..Len(seq) : seq[i] = x})
MinDeliv(f) == CHOOSE m \in {deliv[f][s] : s \in 0..(NFrag[f]-1)} :
                  \A s \in 0..(NFrag[f]-1) : m <= deliv[f][s]

(* nothing but sent frames ever comes out *)
OutSound == \A i \in 1..Len(out) : out[i] \in sent

(* a frame comes out at most once per complete set of its fragments that was delivered *)
AtMostOncePerSet == \A f \in Frames : Count(out, f) <= MinDeliv(f)

(* ... and at least once when all fragments arrived before any expiry and no inconsistent          *)
(* fragment with the same id was ever queued                                                      *)
Complete == \A f \in Frames :
               (clock = 0 /\ Wid[f] \notin taint /\ MinDeliv(f) >= 1
                /\ \A g \in Frames : (g # f /\ Wid[g] = Wid[f]) => g \notin sent)
               => Count(out, f) >= 1

(* nothing survives its deadline: after a tick no entry is older than the timeout *)
Discarded == \A i \in Ids : queue[i] # NoEntry => queue[i].deadline >= clock

(* malformed datagrams never occupy memory *)
TimerSane == Len(timerq) <= gen

TypeOK == /\ clock \in 0..MaxClock
          /\ nops \in 0..MaxOps
          /\ sent \subseteq Frames

Inv == TypeOK /\ OutSound /\ AtMostOncePerSet /\ Complete /\ Discarded /\ TimerSane

(* replay emission: one line per complete bounded behaviour *)
Done == nops = MaxOps
=============================================================================

----------------------------- MODULE MetricsObs -----------------------------
(* Growth beyond the listed properties: the Prometheus counters of GET /api/metrics as a refinement of     *)
(* the per-connection records of Life.tla (one access-log line per collected context, per-direction byte      *)
(* counters):                                                                                             *)
(*     context_gc_count              = number of access-log lines                                          *)
(*     io_client_bytes{listener}     = sum of client_stat.read_bytes over the records of that listener       *)
(*     io_server_bytes{connector}    = sum of server_stat.read_bytes over the records of that connector      *)
(* One record per scrape, written by the C16 driver at a quiescent point (every connection ended and         *)
(* collected).  This is NOT part of property C16 (which speaks about /live, /history and the access log);     *)
(* deviations are reported in the evidence of C16 under "metrics_refinement", never as a violation.          *)
EXTENDS Naturals, Sequences, FiniteSets, TLC, Json, IOUtils

Rec == ndJsonDeserialize(IOEnv.METRICS)
Same(a, b) == /\ DOMAIN a = DOMAIN b /\ \A k \in DOMAIN a : a[k] = b[k]
Good(r) == /\ r.gc_count = r.lines
           /\ Same(r.m_in, r.rec_in)
           /\ Same(r.m_out, r.rec_out)
VARIABLE i
Init == i = 1
Next == i <= Len(Rec) /\ i' = i + 1
Emit == (i <= Len(Rec) /\ ~Good(Rec[i])) => PrintT(<<"CASE", ToJson([idx |-> i, rec |-> Rec[i]])>>)
=============================================================================

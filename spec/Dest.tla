------------------------------- MODULE Dest -------------------------------
(* C03: the destination a client asks for, through one proxy hop: inbound codec -> TargetAddress   *)
(* (what rules see) -> outbound codec -> what the next hop parses.  A destination value is a        *)
(* class (kind, length class, one special byte class at a position, port); per codec the module     *)
(* says whether the client protocol can carry it at all (CanCarry) and whether the outgoing         *)
(* protocol can represent it faithfully (Representable).  The property: the hop either refuses, or  *)
(* forwards exactly (host bytes, port); a destination that is not Representable must be refused.   *)
(* TLC enumerates the whole table; every row is replayed through the real readers and writers.     *)
EXTENDS Naturals, Sequences, FiniteSets, TLC, Json

InCodecs == {"socks5", "socks4a", "socks4", "http", "socks_udp", "rpfm"}
OutCodecs == {"socks5", "socks4", "http", "rpfm", "socks_udp"}
Kinds == {"domain", "v4", "v6"}
LenClasses == {0, 1, 2, 63, 253, 254, 255, 256, 300, 1100}
(* one byte of this class is placed at the given position of an otherwise plain host name *)
ByteClasses == {"plain", "colon", "dot", "space", "tab", "cr", "lf", "nul", "ctl", "del", "nonutf8", "utf8", "slash", "at", "bracket"}
Positions == {"first", "mid", "last"}
Ports == {0, 1, 80, 65535}
V4s == {"0.0.0.0", "1.2.3.4", "255.255.255.255", "127.0.0.1"}
V6s == {"::", "::1", "2001:db8::1", "::ffff:1.2.3.4", "ffff:ffff:ffff:ffff:ffff:ffff:ffff:ffff"}

Dests == [kind : {"domain"}, len : LenClasses, byte : ByteClasses, pos : Positions, port : Ports, ip : {""}]
           \cup [kind : {"v4"}, len : {0}, byte : {"plain"}, pos : {"first"}, port : Ports, ip : V4s]
           \cup [kind : {"v6"}, len : {0}, byte : {"plain"}, pos : {"first"}, port : Ports, ip : V6s]

HasByte(d) == d.kind = "domain" /\ d.len > 0 /\ d.byte # "plain"
Whitespace == {"space", "tab", "cr", "lf"}
Control == {"cr", "lf", "nul", "ctl", "del", "tab"}

(* can the client protocol carry this destination at all *)
CanCarry(c, d) ==
  CASE c = "socks5"    -> d.kind # "domain" \/ d.len <= 255
    [] c = "socks4a"   -> d.kind = "domain" /\ d.len >= 1 /\ ~(HasByte(d) /\ d.byte = "nul")
    [] c = "socks4"    -> d.kind = "v4" /\ d.ip # "0.0.0.0"          \* 0.0.0.x announces SOCKS4a
    [] c = "http"      -> ~(HasByte(d) /\ d.byte \in Whitespace)      \* the request line is split at blanks
                          /\ ~(d.kind = "domain" /\ d.len = 0)
    [] c = "socks_udp" -> d.kind # "domain" \/ d.len <= 255
    [] c = "rpfm"      -> d.kind # "domain" \/ d.len <= 253

(* can the outgoing protocol represent it so that the next hop reads the same (host, port) *)
Representable(c, d) ==
  CASE c = "socks5"    -> d.kind # "domain" \/ d.len <= 255
    [] c = "socks4"    -> d.kind = "v4" \/ (d.kind = "domain" /\ ~(HasByte(d) /\ d.byte = "nul"))
    [] c = "http"      -> ~(HasByte(d) /\ d.byte \in (Whitespace \cup Control))
    [] c = "rpfm"      -> d.kind # "domain" \/ d.len <= 253
    [] c = "socks_udp" -> d.kind # "domain" \/ d.len <= 255

(* a TargetAddress holds text: bytes that are not UTF-8 cannot be held faithfully by the hop at all *)
Holdable(d) == ~(HasByte(d) /\ d.byte = "nonutf8")

(* pairings that exist in the proxy: TCP tunnel requests are re-encoded between the stream        *)
(* handshake protocols; per-datagram UDP addresses between the two datagram header formats;        *)
(* a UDP association request (target of the association) travels like a TCP request               *)
StreamIn == {"socks5", "socks4a", "socks4", "http"}
StreamOut == {"socks5", "socks4", "http"}
DgramCodecs == {"socks_udp", "rpfm"}
Pairs == (StreamIn \X StreamOut) \cup (DgramCodecs \X DgramCodecs)
Cases == {<<i, o, d>> \in InCodecs \X OutCodecs \X Dests : <<i, o>> \in Pairs /\ CanCarry(i, d)}

(* how the destination must look on the wire where a third party (not this proxy's own reader) has to read it:   *)
(* an HTTP CONNECT authority carries an IPv6 literal in brackets (RFC 3986 3.2.2) - without them "addr:port" is     *)
(* itself a different, port-less IPv6 address                                                                      *)
WireRule(o, d) == IF o = "http" /\ d.kind = "v6" THEN "bracketed-v6" ELSE "none"
VARIABLE c
Init == c \in Cases
Next == UNCHANGED c
Emit == PrintT(<<"CASE", ToJson([inc |-> c[1], outc |-> c[2], d |-> c[3],
                                 must_refuse |-> ~(Holdable(c[3]) /\ Representable(c[2], c[3])),
                                 wire_rule |-> WireRule(c[2], c[3])])>>)
(* sanity of the table: every outgoing protocol can represent at least the plain destinations of every kind it supports *)
TableSane == (c[3].byte = "plain" /\ c[3].len \in {1, 2, 63} /\ c[3].kind = "domain") => Representable(c[2], c[3])
=============================================================================

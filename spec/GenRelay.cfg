CONSTANTS
  MaxLen = 3
  Sizes = {1, 3}
  AllowRst = TRUE
INIT Init
NEXT Next
INVARIANT Emit
CHECK_DEADLOCK FALSE

----------------------------- MODULE TraceFrag -----------------------------
(* impl -> spec: a recorded call log of the real Fragments<Frame> (harness `vh frag-trace`) is     *)
(* replayed through the actions of Frag; every call's observed result and queue length must be    *)
(* what the spec's action produces.  Several independent runs are concatenated with `reset`.      *)
EXTENDS MCFrag, IOUtils

Rec == ndJsonDeserialize(IOEnv.TRACE)

VARIABLE l
tvars == <<vars, l>>

TraceInit == Init /\ l = 1

IsEvent(e) == l <= Len(Rec) /\ Rec[l].ev = e /\ l' = l + 1

Last(h) == h[Len(h)]

TReset == /\ IsEvent("reset")
          /\ queue' = [i \in Ids |-> NoEntry] /\ timerq' = <<>> /\ clock' = 0 /\ out' = <<>>
          /\ sent' = {} /\ retired' = {} /\ taint' = {} /\ gen' = 0 /\ nops' = 0 /\ hist' = <<>>
          /\ deliv' = [f \in Frames |-> [s \in 0..(NFrag[f]-1) |-> 0]]

TSend == /\ IsEvent("send")
         /\ Send(Rec[l].f)

TReasmGood == /\ IsEvent("reasm") /\ Rec[l].kind = "good"
              /\ LET e == Rec[l] IN
                   /\ DeliverGood(e.pl[1], e.seq)
                   /\ Last(hist').ret = e.ret
                   /\ Last(hist').qlen = e.qlen

TReasmJunk == /\ IsEvent("reasm") /\ Rec[l].kind # "good"
              /\ LET e == Rec[l] IN
                   \E j \in Junk :
                      /\ j.kind = e.kind
                      /\ (j.kind # "short" => (j.id = e.id /\ j.total = e.total /\ j.seq = e.seq))
                      /\ Inject(j)
                      /\ Last(hist').ret = e.ret
                      /\ Last(hist').qlen = e.qlen

TTick == /\ IsEvent("tick")
         /\ Tick
         /\ Last(hist').qlen = Rec[l].qlen

TraceNext == TReset \/ TSend \/ TReasmGood \/ TReasmJunk \/ TTick
TraceSpec == TraceInit /\ [][TraceNext]_tvars

TraceAccepted ==
    LET d == TLCGet("stats").diameter IN
    IF d - 1 = Len(Rec) THEN PrintT(<<"TRACE-ACCEPTED", Len(Rec)>>)
    ELSE /\ PrintT(<<"TRACE-REJECTED", "matched", d - 1, "of", Len(Rec),
                     "first unmatched", IF d <= Len(Rec) THEN ToJson(Rec[d]) ELSE "-">>)
         /\ FALSE
=============================================================================

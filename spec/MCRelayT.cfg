\* 2 directions x 3 tokens, buffer 2, up to 2 early tokens, FIN/RST on both sides, idle timeout 2 ticks
CONSTANTS
  NTok = 4
  BufSz = 2
  MaxEarly = 2
  Idle = 2
  MaxClock = 3
INIT Init
NEXT Next
INVARIANT Inv
CHECK_DEADLOCK FALSE

CONSTANTS
  Conns <- TraceConns
  HistSize <- TraceHist
SPECIFICATION TraceSpec
INVARIANT Inv
POSTCONDITION TraceAccepted
CHECK_DEADLOCK FALSE

-------------------------------- MODULE Udp --------------------------------
(* C10: UDP sessions through the proxy (listeners/reverse.rs udp_accept, listeners/socks.rs UDP ASSOCIATE, *)
(* common/udp.rs, common/socks.rs frames, connectors/direct.rs DirectFrames, copy.rs frame relay).          *)
(* Clients are distinct source addresses; the listener socket demultiplexes datagrams into per-client      *)
(* sessions; every session has its own upstream socket.  No datagram is lost by the network (premise).      *)
(*   ClientSend(c, d)   client c sends datagram d (addressed to origin Dst[d])                              *)
(*   ListenerRecv       next datagram off the listener socket: found session -> its channel; otherwise a    *)
(*                      session is created AND the datagram that created it is handed to it                 *)
(*   Forward(c)         session c relays the next datagram of its channel to the addressed origin           *)
(*   OriginReply(c, d)  the origin that received d answers to the session's upstream socket                 *)
(*   Return(c)          session c returns the next reply to its client, labelled with the replier           *)
(*   RxError(c)         a receive error on one of session c's sockets: produces NO datagram                 *)
EXTENDS Naturals, Sequences, FiniteSets, TLC

CONSTANTS Clients, Dgrams, Owner, Dst, Origins, MaxErr
(* Owner[d] \in Clients: who sends d; Dst[d] \in Origins *)

VARIABLES toSend,     \* datagrams not yet sent
          lsock,      \* listener socket queue: Seq of datagram ids (carrying their source = Owner)
          sessions,   \* set of clients with a session
          chan,       \* [Clients -> Seq(d)] per-session channel
          atOrigin,   \* [Origins -> Seq(record)] what each origin received: [d, via]
          upq,        \* [Clients -> Seq(record)] replies waiting on the session's upstream socket: [d, from]
          atClient,   \* [Clients -> Seq(record)] what each client received: [d, label]
          errs
vars == <<toSend, lsock, sessions, chan, atOrigin, upq, atClient, errs>>

Init == /\ toSend = Dgrams /\ lsock = <<>> /\ sessions = {} /\ chan = [c \in Clients |-> <<>>]
        /\ atOrigin = [o \in Origins |-> <<>>] /\ upq = [c \in Clients |-> <<>>] /\ atClient = [c \in Clients |-> <<>>] /\ errs = 0

ClientSend(d) == /\ d \in toSend
                 /\ toSend' = toSend \ {d} /\ lsock' = Append(lsock, d)
                 /\ UNCHANGED <<sessions, chan, atOrigin, upq, atClient, errs>>
ListenerRecv == /\ lsock # <<>>
                /\ LET d == Head(lsock)  c == Owner[d] IN
                     /\ sessions' = sessions \cup {c}
                     /\ chan' = [chan EXCEPT ![c] = Append(@, d)]      \* also for the datagram that creates the session
                /\ lsock' = Tail(lsock)
                /\ UNCHANGED <<toSend, atOrigin, upq, atClient, errs>>
Forward(c) == /\ c \in sessions /\ chan[c] # <<>>
              /\ LET d == Head(chan[c]) IN atOrigin' = [atOrigin EXCEPT ![Dst[d]] = Append(@, [d |-> d, via |-> c])]
              /\ chan' = [chan EXCEPT ![c] = Tail(@)]
              /\ UNCHANGED <<toSend, lsock, sessions, upq, atClient, errs>>
(* origins echo: one reply per received datagram, sent to the session socket it came from *)
Replied(o) == UNION {{upq[c][i].d : i \in 1..Len(upq[c])} \cup {atClient[c][i].d : i \in 1..Len(atClient[c])} : c \in Clients}
OriginReply(o) == \E i \in 1..Len(atOrigin[o]) :
                     LET r == atOrigin[o][i] IN
                     /\ r.d \notin Replied(o)
                     /\ upq' = [upq EXCEPT ![r.via] = Append(@, [d |-> r.d, from |-> o])]
                     /\ UNCHANGED <<toSend, lsock, sessions, chan, atOrigin, atClient, errs>>
Return(c) == /\ upq[c] # <<>>
             /\ atClient' = [atClient EXCEPT ![c] = Append(@, [d |-> Head(upq[c]).d, label |-> Head(upq[c]).from])]
             /\ upq' = [upq EXCEPT ![c] = Tail(@)]
             /\ UNCHANGED <<toSend, lsock, sessions, chan, atOrigin, errs>>
RxError(c) == /\ errs < MaxErr /\ c \in sessions
              /\ errs' = errs + 1
              /\ UNCHANGED <<toSend, lsock, sessions, chan, atOrigin, upq, atClient>>

Next == (\E d \in Dgrams : ClientSend(d)) \/ ListenerRecv \/ (\E c \in Clients : Forward(c) \/ Return(c) \/ RxError(c)) \/ (\E o \in Origins : OriginReply(o))
Spec == Init /\ [][Next]_vars /\ WF_vars(Next)

---------------------------------------------------------------------------
AllOrigin == UNION {{atOrigin[o][i] : i \in 1..Len(atOrigin[o])} : o \in Origins}
(* delivered to the addressed destination, at most once, through the owner's session, nothing fabricated *)
DeliveredRight == \A o \in Origins : \A i \in 1..Len(atOrigin[o]) :
                     LET r == atOrigin[o][i] IN r.d \in Dgrams /\ Dst[r.d] = o /\ r.via = Owner[r.d]
AtMostOnce == \A o \in Origins : \A i, j \in 1..Len(atOrigin[o]) : atOrigin[o][i].d = atOrigin[o][j].d => i = j
(* replies reach exactly the owning client, labelled with the replier *)
RepliesRight == \A c \in Clients : \A i \in 1..Len(atClient[c]) :
                   LET r == atClient[c][i] IN Owner[r.d] = c /\ r.label = Dst[r.d]
Isolation == \A c \in Clients : \A i \in 1..Len(chan[c]) : Owner[chan[c][i]] = c
Inv == DeliveredRight /\ AtMostOnce /\ RepliesRight /\ Isolation
(* absent loss everything arrives, including the datagram that opened the session *)
Quiet == toSend = {} /\ lsock = <<>> /\ \A c \in Clients : chan[c] = <<>> /\ upq[c] = <<>>
AllDelivered == (Quiet /\ ~ENABLED (\E o \in Origins : OriginReply(o))) =>
                   /\ \A d \in Dgrams : \E r \in AllOrigin : r.d = d
                   /\ \A d \in Dgrams : \E i \in 1..Len(atClient[Owner[d]]) : atClient[Owner[d]][i].d = d
=============================================================================

CONSTANTS
  Members <- M2dup
  Tasks = {1, 2}
  MaxSel = 6
  Keys = {"k1", "k2", "k3"}
  H <- MC_H
INIT Init
NEXT Next
INVARIANT Inv
CHECK_DEADLOCK FALSE

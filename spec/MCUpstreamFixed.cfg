CONSTANTS
  Conns <- MCConns
  Kind <- MCKind
  UpOf <- MCUpOf
  Upstreams <- MCUpstreams
  IdleMax = 2
  IdleTimer = TRUE
  CheckClosed = TRUE
  MaxTime = 7
  MaxFaults = 2
SPECIFICATION Spec
INVARIANT Inv
PROPERTY Isolation
CHECK_DEADLOCK FALSE

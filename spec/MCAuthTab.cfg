CONSTANTS
  Pairs = {"u:p1"}
  MaxSteps = 0
  CacheOn = TRUE
INIT TInit
NEXT TNext
INVARIANT EmitTab
CHECK_DEADLOCK FALSE

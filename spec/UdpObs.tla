------------------------------- MODULE UdpObs -------------------------------
(* C10 binding: terminal-state predicates of Udp.tla (DeliveredRight, AtMostOnce, AllDelivered,         *)
(* RepliesRight, Isolation, "a receive error produces no datagram") evaluated on what the origins and     *)
(* clients of a run against real proxy processes observed.  One record per session (client socket):       *)
(*   sent          number of datagrams the client sent (each tagged with session, sequence number, length) *)
(*   at_origin     per sequence number: how many copies reached the addressed origin with identical payload *)
(*   misdelivered  datagrams of this session seen at a wrong origin / foreign datagrams inside this session *)
(*   replies       per sequence number: copies of the echo reply received by this client, correctly labelled *)
(*   foreign_replies replies of other sessions / unlabelled / fabricated (e.g. empty) datagrams received     *)
(*   tiny_*        the 0-, 1- and 2-byte datagrams every session sends at the end (sizes seen)               *)
EXTENDS Naturals, Sequences, TLC, Json, IOUtils
Rec == ndJsonDeserialize(IOEnv.UDP)
Good(r) == /\ \A i \in 1..Len(r.at_origin) : r.at_origin[i] = 1
           /\ Len(r.at_origin) = r.sent
           /\ r.misdelivered = 0 /\ r.corrupted = 0
           /\ \A i \in 1..Len(r.replies) : r.replies[i] = 1
           /\ Len(r.replies) = r.sent
           /\ r.foreign_replies = 0 /\ r.mislabelled = 0
           /\ r.fabricated_at_origin = 0
           \* payloads of 0, 1 and 2 bytes (too small for a tag): each session gets its three echoes, the origin every one of them
           /\ r.tiny_replies = <<0, 1, 2>>
           /\ r.tiny_at_origin = r.tiny_expected_at_origin
VARIABLE i
Init == i = 1
Next == i <= Len(Rec) /\ i' = i + 1
Emit == (i <= Len(Rec) /\ ~Good(Rec[i])) => PrintT(<<"CASE", ToJson([idx |-> i, rec |-> Rec[i]])>>)
=============================================================================

\* timed behaviour generator: ticks interleaved with deliveries; smaller alphabet
CONSTANTS
  Frames <- MCT_Frames
  NFrag <- MC_NFrag
  Wid <- MC_Wid
  Junk <- MCT_Junk
  Timeout = 2
  MaxOps = 4
  MaxClock = 4
  MaxDup = 2
INIT Init
NEXT GenNext
INVARIANT EmitT
CHECK_DEADLOCK FALSE

INIT Init
NEXT Next
INVARIANT Emit
CHECK_DEADLOCK FALSE

\* quick: http client that may stall, fresh http client, /live, rules POST, gc; every stall set
CONSTANTS
  Tasks <- Q_Tasks
  Prog <- ProgFixed
  Locks <- MC_Locks
  Peers <- MC_Peers
  StallSets <- MC_StallSets
INIT Init
NEXT Next
INVARIANT Inv
CHECK_DEADLOCK FALSE

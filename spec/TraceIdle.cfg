CONSTANTS
  NTok = 64
  BufSz = 1000000
  MaxEarly = 64
  Idle <- TraceIdleTol
  MaxClock = 0
SPECIFICATION IdleSpec
INVARIANT Inv
CONSTRAINT Track
POSTCONDITION TraceAccepted
CHECK_DEADLOCK FALSE

------------------------------ MODULE TraceIdle ------------------------------
(* impl -> spec for C13: TraceRelay with time.  Every proxy event carries the proxy's own clock reading  *)
(* `t` (milliseconds since it started); the model clock follows it (TTime), so `last[d]` is the proxy's  *)
(* own time of the last transfer in direction d.  The idle period comes from the configuration the       *)
(* proxy was started with (header record); relay_begin must show that very period for the tunnel (wiring: *)
(* timeouts.idle for TCP tunnels, timeouts.udp for UDP associations), an abort without a reset is only    *)
(* explainable by IdleAbort, i.e. when both directions have been silent for longer than the period, and   *)
(* it must come within the period plus the 1 s ticker plus scheduling slack.                             *)
EXTENDS TraceRelay

Cfg == Rec[1]                      \* {"ev":"scn", ..., "idle_ms": configured period for this kind of tunnel}
TraceIdleMs == Cfg.idle_ms
(* the proxy decides with SystemTime in whole milliseconds, the hook stamps events with a monotonic clock in  *)
(* whole milliseconds: the two readings of one instant can differ by rounding, hence 2 ms of tolerance on   *)
(* the 'only then' side.                                                                                 *)
TraceIdleTol == IF TraceIdleMs > 2 THEN TraceIdleMs - 2 ELSE TraceIdleMs
Slack == 2500

HasT == l <= Len(Rec) /\ "t" \in DOMAIN Rec[l]
TTime == /\ HasT
         /\ Rec[l].t > clock
         /\ clock' = Rec[l].t /\ l' = l /\ UNCHANGED scn
         /\ UNCHANGED <<phase, sent, srcSt, wireIn, ahead, pbuf, wireOut, finOut, recv, eofSeen, half, result, closedBoth, stat, log, last, logged>>
OnTime == IF HasT THEN Rec[l].t <= clock ELSE TRUE
(* the tunnel must run with the configured period *)
Wired == IF l <= Len(Rec) /\ Rec[l].ev = "relay_begin" THEN Rec[l].idle_ms = TraceIdleMs ELSE TRUE
(* an idle abort is prompt *)
Prompt == IF l <= Len(Rec) /\ Rec[l].ev = "state" /\ Rec[l].st = "ErrorOccured" /\ NoReset
          THEN clock - last["c2s"] <= Idle + Slack \/ clock - last["s2c"] <= Idle + Slack ELSE TRUE

IdleNext == TTime \/ (OnTime /\ Wired /\ Prompt /\ TraceNext)
IdleSpec == TraceInit /\ [][IdleNext]_tvars
=============================================================================

------------------------------ MODULE Upstream ------------------------------
(* C19: service resumes after an upstream outage without restarting the proxy.                              *)
(* Connectors (src/connectors/*.rs) and the upstream each one talks to:                                     *)
(*   "dial"  direct / http / socks: a fresh TCP connection per request (connect per request)                *)
(*   "quic"  one long-lived connection cached in the connector and shared by all requests                   *)
(*           (connectors/quic.rs get_connection / clear_connection / create_connection)                     *)
(*   "lb"    a load balancer over dial members (connectors/loadbalance.rs): some member per request          *)
(* Environment: every upstream is a process that can be killed (listener gone, connections reset / silently  *)
(* dropped for QUIC), stalled (accepts, never answers), replaced by something that answers garbage, and        *)
(* brought back (a NEW incarnation: connections to the old one are dead).                                     *)
(* Time is explicit (`now`, in ticks): a QUIC connection whose peer vanished is noticed only when its idle     *)
(* timer fires, at the latest IdleMax ticks after the peer was last heard (IdleFire); until then requests      *)
(* multiplexed on it hang.  Two switches describe the code:                                                 *)
(*   IdleTimer    the idle timer is short enough to matter (original code: 3600 s, i.e. never: FALSE)        *)
(*   CheckClosed  get_connection drops a cached connection known to be closed (original code: FALSE - the     *)
(*                first request after the timer fails with "quic: ..." and clears it)                        *)
(* Actions                                                                                                   *)
(*   Kill(u) Stall(u) Garble(u) Restart(u) Cont(u)   environment                                              *)
(*   Tick            time passes (a live peer keeps refreshing lastHeard: keep-alives)                        *)
(*   IdleFire(c)     the cached connection of c learns that it is dead; its tunnels end                        *)
(*   Attempt(c, o, op)  one request through connector c with outcome o \in {"ok","fail","hang"}; op = what the   *)
(*                   connector's get_connection did (logged by the quic_conn hook)                             *)
(*   LateCreate(c) / GiveUp(c)  a create_connection started while the upstream was away completes / gives up    *)
(*   OpenTunnel(c)   a request that stays open as a tunnel                                                     *)
EXTENDS Naturals, Sequences, FiniteSets, TLC

CONSTANTS Conns, Kind, UpOf,        \* UpOf[c]: set of upstreams c may use (singleton except for "lb")
          Upstreams, IdleMax, IdleTimer, CheckClosed, MaxTime, MaxFaults

VARIABLES ust,        \* [Upstreams -> {"up","down","stalled","garbage","holding"}]
          inc,        \* [Upstreams -> Nat] incarnation
          cache,      \* [Conns -> NoConn or [inc |-> Nat, closed |-> BOOLEAN]]
          lastHeard,  \* [Conns -> Nat] when the cached connection last heard its peer
          tunnels,    \* set of [c, u, inc] open tunnels
          now,
          okSince,    \* [Upstreams -> Nat] since when the upstream has been continuously up (meaningful when up)
          late,       \* [Conns -> Nat] failed / hung attempts made although the upstream had been up for the grace period
          pending,    \* [Conns -> BOOLEAN] a create_connection started while the upstream was away is still retrying
                      \* (it holds the connector's mutex: every other request of this connector waits behind it)
          faults
vars == <<ust, inc, cache, lastHeard, tunnels, now, okSince, late, pending, faults>>

NoConn == [inc |-> 0, closed |-> TRUE]
TheUp(c) == CHOOSE u \in UpOf[c] : TRUE
Live(c) == cache[c] # NoConn /\ ~cache[c].closed /\ cache[c].inc = inc[TheUp(c)] /\ ust[TheUp(c)] = "up"
DeadUnnoticed(c) == cache[c] # NoConn /\ ~cache[c].closed /\ ~Live(c)
(* how long an upstream must have been back before requests must succeed, and how many may still fail *)
Grace(c) == IF Kind[c] = "quic" THEN IdleMax ELSE 0
Spare(c) == IF Kind[c] = "quic" /\ ~CheckClosed THEN 1 ELSE 0

Init == /\ ust = [u \in Upstreams |-> "up"] /\ inc = [u \in Upstreams |-> 1]
        /\ cache = [c \in Conns |-> NoConn] /\ lastHeard = [c \in Conns |-> 0]
        /\ tunnels = {} /\ now = 0 /\ okSince = [u \in Upstreams |-> 0] /\ late = [c \in Conns |-> 0] /\ pending = [c \in Conns |-> FALSE] /\ faults = 0

(* ---- environment ---- *)
ResetDialTunnels(u) == {t \in tunnels : ~(t.u = u /\ Kind[t.c] # "quic")}
Kill(u) == /\ ust[u] \in {"up", "stalled", "garbage", "holding"} /\ faults < MaxFaults /\ faults' = faults + 1
           /\ ust' = [ust EXCEPT ![u] = "down"]
           /\ tunnels' = ResetDialTunnels(u)            \* TCP: the kernel resets them; QUIC: nobody tells the client
           /\ UNCHANGED <<inc, cache, lastHeard, now, okSince, late, pending>>
Stall(u) == /\ ust[u] = "up" /\ faults < MaxFaults /\ faults' = faults + 1
            /\ ust' = [ust EXCEPT ![u] = "stalled"]
            /\ UNCHANGED <<inc, cache, lastHeard, tunnels, now, okSince, late, pending>>
Garble(u, mode) == /\ ust[u] = "down" /\ mode \in {"garbage", "holding"}     \* something else answers on the port
                   /\ ust' = [ust EXCEPT ![u] = mode]
                   /\ UNCHANGED <<inc, cache, lastHeard, tunnels, now, okSince, late, pending, faults>>
Restart(u) == /\ ust[u] \in {"down", "garbage", "holding"}
              /\ ust' = [ust EXCEPT ![u] = "up"] /\ inc' = [inc EXCEPT ![u] = @ + 1]
              /\ okSince' = [okSince EXCEPT ![u] = now]
              /\ late' = [c \in Conns |-> IF u \in UpOf[c] THEN 0 ELSE late[c]]
              /\ UNCHANGED <<cache, lastHeard, tunnels, now, pending, faults>>
Cont(u) == /\ ust[u] = "stalled"
           /\ ust' = [ust EXCEPT ![u] = "up"]
           /\ okSince' = [okSince EXCEPT ![u] = now]
           /\ late' = [c \in Conns |-> IF u \in UpOf[c] THEN 0 ELSE late[c]]
           /\ UNCHANGED <<inc, cache, lastHeard, tunnels, now, pending, faults>>

(* ---- time ---- *)
MustFire(c) == IdleTimer /\ DeadUnnoticed(c) /\ now - lastHeard[c] >= IdleMax
(* a retrying create_connection reaches an upstream that is back within the grace period (retransmission back-off) *)
MustCreate(c) == pending[c] /\ ust[TheUp(c)] = "up" /\ now - okSince[TheUp(c)] >= IdleMax
Tick == /\ now < MaxTime /\ \A c \in Conns : ~MustFire(c) /\ ~MustCreate(c)
        /\ now' = now + 1
        /\ lastHeard' = [c \in Conns |-> IF Live(c) THEN now + 1 ELSE lastHeard[c]]
        /\ UNCHANGED <<ust, inc, cache, tunnels, okSince, late, pending, faults>>
IdleFire(c) == /\ IdleTimer /\ DeadUnnoticed(c)
               /\ cache' = [cache EXCEPT ![c].closed = TRUE]
               /\ tunnels' = {t \in tunnels : t.c # c}            \* streams of a closed connection end with an error
               /\ UNCHANGED <<ust, inc, lastHeard, now, okSince, late, pending, faults>>

(* ---- requests ---- *)
(* a request is due to succeed when every upstream it may use is up and nothing stale can stand in its way: the grace    *)
(* period has passed (strictly), or - for the cached QUIC connection - there is nothing cached and no attempt retrying   *)
(* (a fresh connection is made), or the cached connection is live                                                       *)
DueOk(c) == /\ \A u \in UpOf[c] : ust[u] = "up"
            /\ IF Kind[c] = "quic"
               THEN \/ now - okSince[TheUp(c)] > Grace(c)
                    \/ (cache[c] = NoConn /\ ~pending[c] /\ now - okSince[TheUp(c)] > 0)
                    \/ Live(c)
               ELSE \A u \in UpOf[c] : now - okSince[u] > Grace(c)
Count(c, o) == late' = [late EXCEPT ![c] = IF o # "ok" /\ DueOk(c) THEN @ + 1 ELSE @]
DialOutcome(u) == CASE ust[u] = "up" -> "ok" [] ust[u] \in {"stalled", "holding"} -> "hang" [] OTHER -> "fail"
AttemptDial(c, o, op) == /\ Kind[c] \in {"dial", "lb"} /\ op = "-"
                         /\ \E u \in UpOf[c] : o = DialOutcome(u)        \* lb: whichever member the rotation yields
                         /\ Count(c, o)
                         /\ UNCHANGED <<ust, inc, cache, lastHeard, tunnels, now, okSince, pending, faults>>
(* connectors/quic.rs connect(): get_connection, open a stream, handshake on it *)
(* `op` is what get_connection logs: "create", "reuse", "reuse+clear" or nothing at all ("-")                          *)
AttemptQuic(c, o, op) ==
    /\ Kind[c] = "quic"
    /\ LET u == TheUp(c)
           cur == IF CheckClosed /\ cache[c] # NoConn /\ cache[c].closed THEN NoConn ELSE cache[c]   \* repaired get_connection
       IN IF pending[c] THEN /\ o = "hang" /\ op = "-" /\ UNCHANGED <<cache, lastHeard, pending>>     \* waits for the connector's mutex
          ELSE CASE cur = NoConn ->
                 IF ust[u] = "up"
                 THEN /\ o = "ok" /\ op = "create" /\ cache' = [cache EXCEPT ![c] = [inc |-> inc[u], closed |-> FALSE]]
                      /\ lastHeard' = [lastHeard EXCEPT ![c] = now] /\ UNCHANGED pending
                 ELSE /\ o = "hang" /\ op = "-" /\ cache' = [cache EXCEPT ![c] = NoConn] /\ UNCHANGED lastHeard
                      /\ pending' = [pending EXCEPT ![c] = TRUE]                                      \* create_connection keeps retrying
            [] cur # NoConn /\ cur.closed ->          \* "quic: failed to open bi-stream": cleared, this request fails
                 /\ o = "fail" /\ op = "reuse+clear" /\ cache' = [cache EXCEPT ![c] = NoConn] /\ UNCHANGED <<lastHeard, pending>>
            [] cur # NoConn /\ ~cur.closed ->
                 /\ o = (IF Live(c) THEN "ok" ELSE "hang")     \* a dead connection swallows the request until its timer fires
                 /\ op = "reuse" /\ UNCHANGED <<cache, lastHeard, pending>>
    /\ Count(c, o)
    /\ UNCHANGED <<ust, inc, tunnels, now, okSince, faults>>
(* the retrying create_connection reaches the upstream once it is back, or gives up *)
LateCreate(c) == /\ pending[c] /\ ust[TheUp(c)] = "up"
                 /\ cache' = [cache EXCEPT ![c] = [inc |-> inc[TheUp(c)], closed |-> FALSE]]
                 /\ lastHeard' = [lastHeard EXCEPT ![c] = now] /\ pending' = [pending EXCEPT ![c] = FALSE]
                 /\ UNCHANGED <<ust, inc, tunnels, now, okSince, late, faults>>
GiveUp(c) == /\ pending[c] /\ ust[TheUp(c)] # "up"
             /\ pending' = [pending EXCEPT ![c] = FALSE]
             /\ UNCHANGED <<ust, inc, cache, lastHeard, tunnels, now, okSince, late, faults>>
Attempt(c, o, op) == AttemptDial(c, o, op) \/ AttemptQuic(c, o, op)
OpenTunnel(c) == /\ Cardinality(tunnels) < 2
                 /\ \E u \in UpOf[c] : /\ ust[u] = "up" /\ (Kind[c] = "quic" => Live(c))
                                       /\ tunnels' = tunnels \cup {[c |-> c, u |-> u, inc |-> inc[u]]}
                 /\ UNCHANGED <<ust, inc, cache, lastHeard, now, okSince, late, pending, faults>>

Ops == {"-", "create", "reuse", "reuse+clear"}
Next == \/ \E u \in Upstreams : Kill(u) \/ Stall(u) \/ Garble(u, "garbage") \/ Garble(u, "holding") \/ Restart(u) \/ Cont(u)
        \/ Tick
        \/ \E c \in Conns : IdleFire(c) \/ OpenTunnel(c) \/ LateCreate(c) \/ GiveUp(c) \/ \E o \in {"ok", "fail", "hang"}, op \in Ops : Attempt(c, o, op)
Spec == Init /\ [][Next]_vars

---------------------------------------------------------------------------
(* once the upstream has been back for the grace period at most Spare(c) further requests fail *)
Recovery == \A c \in Conns : late[c] <= Spare(c)
(* a tunnel whose upstream incarnation is gone does not outlive the idle period (TCP: gone at once) *)
TunnelDead(t) == inc[t.u] # t.inc \/ ust[t.u] \in {"down", "garbage"}
CleanClose == \A t \in tunnels : TunnelDead(t) => (Kind[t.c] = "quic" /\ now - lastHeard[t.c] <= IdleMax)
(* nothing that happens to one upstream touches tunnels of another: tunnels only disappear in Kill(their u) / IdleFire(their c) *)
Isolation == [][\A t \in tunnels : (t \notin tunnels') => (ust'[t.u] # "up" \/ inc'[t.u] # t.inc \/ (Kind[t.c] = "quic" /\ cache'[t.c].closed))]_vars
Inv == Recovery /\ CleanClose
=============================================================================

CONSTANTS
  Conns = {}
  ReqSet <- SwapReqSet
  ListSeqs <- OneHist
  Connectors <- MC_Connectors
INIT OInit
NEXT ONext
INVARIANT Emit
CHECK_DEADLOCK FALSE

------------------------------- MODULE Config -------------------------------
(* C18: every configuration document obtained from a valid one by one mutation is either accepted   *)
(* or rejected with a message - loading never crashes or hangs - and an accepted one never makes the  *)
(* proxy crash or loop when traffic arrives.                                                        *)
(* (1) Mutation table: field paths of the reference configuration (all listener and connector kinds,   *)
(*     TLS blocks, auth, rules, metrics, access log, timeouts, io parameters) x mutation operators.    *)
(*     TLC enumerates the table; the harness applies each row to the reference document and runs the   *)
(*     real loading sequence (in-process, and through `--test` of the real binary for a sample).       *)
(*     The access-log format additionally takes script formats (operator "logscript"): valid, failing   *)
(*     at every evaluation, failing only for some traffic (division / index depending on the target);   *)
(*     whatever is accepted is started and must survive traffic that makes the script fail.             *)
(* (2) Load-balancer reference graphs: every digraph over three load balancers and one leaf            *)
(*     connector; a graph is Safe iff no cycle is reachable from any load balancer; a configuration      *)
(*     whose graph is not Safe must be rejected (a request routed into a cycle never finishes).         *)
EXTENDS Naturals, Sequences, FiniteSets, TLC, Json

Paths == {
  "apiVersion", "kind", "listeners", "connectors", "rules", "metrics", "metrics.bind", "metrics.historySize", "metrics.ui", "metrics.apiPrefix", "metrics.cors",
  "accessLog", "accessLog.path", "accessLog.format", "timeouts", "timeouts.idle", "timeouts.udp", "ioParams", "ioParams.bufferSize", "ioParams.useSplice",
  "listeners.0", "listeners.0.name", "listeners.0.type", "listeners.0.bind",
  "listeners.1.tls", "listeners.1.tls.cert", "listeners.1.tls.key", "listeners.1.tls.client", "listeners.1.tls.client.ca", "listeners.1.tls.client.required",
  "listeners.2.name", "listeners.2.auth", "listeners.2.auth.required", "listeners.2.auth.users", "listeners.2.auth.users.0.username", "listeners.2.auth.cmd",
  "listeners.2.auth.cache", "listeners.2.auth.cache.timeout", "listeners.2.allowUdp", "listeners.2.overrideUdpAddress",
  "listeners.3.target", "listeners.3.protocol", "listeners.4.tls", "listeners.4.bbr", "listeners.4.bind",
  "listeners.5.type", "listeners.5.protocol", "listeners.5.maxUdpSocket", "listeners.5.udpFullCone",
  "connectors.0", "connectors.0.name", "connectors.0.bind", "connectors.0.dns", "connectors.0.dns.servers", "connectors.0.dns.family", "connectors.0.fwmark", "connectors.0.keepalive",
  "connectors.1.server", "connectors.1.port", "connectors.1.tls", "connectors.1.tls.insecure", "connectors.1.tls.ca", "connectors.1.tls.auth", "connectors.1.tls.auth.cert", "connectors.1.tls.auth.key", "listeners.4.tls.key",
  "connectors.2.version", "connectors.2.auth", "connectors.2.auth.username",
  "connectors.3.connectors", "connectors.3.connectors.0", "connectors.3.algo", "connectors.3.name", "connectors.3.type",
  "connectors.4.tls", "connectors.4.bind", "connectors.4.inlineUdp", "connectors.4.port",
  "rules.0", "rules.0.filter", "rules.0.target", "rules.1.target" }

Ops == [ delete |-> {"-"},
         retype |-> {"string", "int", "negint", "bool", "list", "map", "null", "float"},
         logscript |-> {"valid", "evalfail_always", "const_div0", "traffic_dependent_div", "traffic_dependent_index", "nonstring", "syntax"},
         startup |-> {"no_slash", "wildcard", "bad_header", "unbindable", "wrong_pem", "u64max", "zero"},
         value  |-> {"empty", "unknown_type", "deny", "huge", "bad_addr", "bad_port", "bad_path", "bad_script", "nonbool_script", "unknown_ref", "self_ref", "dup_name", "nul"} ]
(* values that are well-formed for the loader's parser but that a later stage chokes on: a router prefix without      *)
(* its slash or with a wildcard, a header value with a line break, an address that cannot be bound, a PEM file of       *)
(* the wrong kind (certificate where a key is expected and the other way round)                                         *)
StartupApplies(p, x) ==
   CASE x \in {"no_slash", "wildcard"} -> p = "metrics.apiPrefix"
     [] x = "bad_header" -> p = "metrics.cors"
     [] x = "unbindable" -> p \in {"metrics.bind", "listeners.0.bind", "listeners.4.bind"}
     [] x = "u64max" -> p \in {"listeners.2.auth.cache.timeout", "listeners.5.maxUdpSocket", "timeouts.idle", "timeouts.udp", "metrics.historySize", "ioParams.bufferSize"}   \* the largest number the field's type takes
     [] x = "zero" -> p \in {"listeners.2.auth.cache.timeout", "listeners.5.maxUdpSocket", "timeouts.idle", "timeouts.udp", "metrics.historySize", "ioParams.bufferSize", "connectors.1.port"}
     [] x = "wrong_pem" -> p \in {"listeners.1.tls.cert", "listeners.1.tls.key", "listeners.1.tls.client.ca", "connectors.1.tls.ca", "connectors.1.tls.auth.cert", "connectors.1.tls.auth.key", "listeners.4.tls.key"}
Rows == {<<p, o, x>> \in Paths \X (DOMAIN Ops) \X {"-", "string", "int", "negint", "bool", "list", "map", "null", "float", "empty", "unknown_type", "deny",
                                                  "huge", "bad_addr", "bad_port", "bad_path", "bad_script", "nonbool_script", "unknown_ref", "self_ref", "dup_name", "nul",
                                                  "valid", "evalfail_always", "const_div0", "traffic_dependent_div", "traffic_dependent_index", "nonstring", "syntax",
                                                  "no_slash", "wildcard", "bad_header", "unbindable", "wrong_pem", "u64max", "zero"} :
           x \in Ops[o] /\ ((o = "logscript") <=> (p = "accessLog.format")) /\ (o = "startup" => StartupApplies(p, x))}
AllowedLoad == {"accepted", "rejected"}        \* "panic", "hang", a signal: violations

(* ---- load-balancer graphs ---- *)
LBs == {"lb1", "lb2", "lb3"}
Nodes == LBs \cup {"leaf"}
Graphs == [LBs -> SUBSET Nodes \ {{}}]            \* members of each load balancer (non-empty)
RECURSIVE Reach(_, _, _)
Reach(g, frontier, seen) == IF frontier \subseteq seen THEN seen
                            ELSE Reach(g, UNION {IF n \in LBs THEN g[n] ELSE {} : n \in frontier \ seen}, seen \cup frontier)
(* a cycle is reachable from lb iff lb can reach some load balancer that can reach itself *)
SelfReach(g, n) == n \in LBs /\ n \in Reach(g, g[n], {})
Safe(g) == \A n \in LBs : ~SelfReach(g, n)

VARIABLES kind, row, graph
Init == \/ (kind = "row" /\ row \in Rows /\ graph = [n \in LBs |-> {"leaf"}])
        \/ (kind = "graph" /\ row = <<"-", "-", "-">> /\ graph \in Graphs)
Next == UNCHANGED <<kind, row, graph>>
Emit == PrintT(<<"CASE", IF kind = "row" THEN ToJson([kind |-> "row", path |-> row[1], op |-> row[2], param |-> row[3]])
                         ELSE ToJson([kind |-> "graph", members |-> [n \in LBs |-> graph[n]], safe |-> Safe(graph)])>>)
=============================================================================

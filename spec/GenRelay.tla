------------------------------ MODULE GenRelay ------------------------------
(* Scenario scripts for the tunnel drivers = the environment's side of Relay's behaviours: who      *)
(* speaks first, how much, early data glued to the handshake, which side closes first and how (FIN  *)
(* or RST), with how much still to be written by the other side.  TLC enumerates every script up to  *)
(* the bound; each is executed against the real proxy and its trace validated by TraceRelay.        *)
EXTENDS Naturals, Sequences, TLC, Json

CONSTANTS MaxLen, Sizes, AllowRst
Dirs == {"c2s", "s2c"}
VARIABLES script, st, started
Init == script = <<>> /\ st = [d \in Dirs |-> "open"] /\ started = FALSE
Done == \A d \in Dirs : st[d] # "open"
(* early data: the client pipelines payload behind its handshake (first step only) *)
Early == /\ ~started /\ script = <<>>
         /\ \E n \in Sizes : script' = <<[op |-> "early", d |-> "c2s", n |-> n]>>
         /\ started' = TRUE /\ UNCHANGED st
Write(d) == /\ st[d] = "open" /\ Len(script) < MaxLen /\ (\A e \in Dirs : st[e] # "rst")
            /\ \E n \in Sizes : script' = Append(script, [op |-> "w", d |-> d, n |-> n])
            /\ started' = TRUE /\ UNCHANGED st
Fin(d) == /\ st[d] = "open" /\ (\A e \in Dirs : st[e] # "rst")
          /\ script' = Append(script, [op |-> "fin", d |-> d, n |-> 0])
          /\ st' = [st EXCEPT ![d] = "fin"] /\ started' = TRUE
Rst(d) == /\ AllowRst /\ st[d] \in {"open", "fin"} /\ (\A e \in Dirs : st[e] # "rst")
          /\ script' = Append(script, [op |-> "rst", d |-> d, n |-> 0])
          /\ st' = [st EXCEPT ![d] = "rst"] /\ started' = TRUE
Next == ~Done /\ ~(\E e \in Dirs : st[e] = "rst") /\ (Early \/ \E d \in Dirs : Write(d) \/ Fin(d) \/ Rst(d))
Final == Done \/ (\E e \in Dirs : st[e] = "rst")
Emit == Final => PrintT(<<"CASE", ToJson([script |-> script, ending |-> st])>>)
=============================================================================

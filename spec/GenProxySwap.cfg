CONSTANTS
  Conns = {}
  ReqSet <- SwapReqSet
  ListSeqs <- SwapHist3
  Connectors <- MC_Connectors
INIT Init
NEXT Next
INVARIANT InForceInv
INVARIANT EmitSwap
CHECK_DEADLOCK FALSE

CONSTANTS
  Conns = {}
  ReqSet <- SwapReqSet
  ListSeqs <- GenHist3
  Connectors <- MC_Connectors
INIT Init
NEXT Next
INVARIANT InForceInv
INVARIANT EmitSwap
CHECK_DEADLOCK FALSE

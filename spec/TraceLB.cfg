CONSTANTS
  Members <- TraceMembers
  Tasks = {1}
  MaxSel = 100000000
  Keys <- TraceKeys
  H <- TraceH
SPECIFICATION TraceSpec
INVARIANT OnlyMembers
POSTCONDITION TraceAccepted
CHECK_DEADLOCK FALSE

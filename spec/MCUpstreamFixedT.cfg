CONSTANTS
  Conns <- MCConns
  Kind <- MCKind
  UpOf <- MCUpOf
  Upstreams <- MCUpstreams
  IdleMax = 3
  IdleTimer = TRUE
  CheckClosed = TRUE
  MaxTime = 9
  MaxFaults = 3
SPECIFICATION Spec
INVARIANT Inv
PROPERTY Isolation
CHECK_DEADLOCK FALSE

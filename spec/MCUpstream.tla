----------------------------- MODULE MCUpstream -----------------------------
EXTENDS Upstream
MCConns == {"d", "q", "l"}
MCKind == [c \in MCConns |-> CASE c = "d" -> "dial" [] c = "q" -> "quic" [] OTHER -> "lb"]
MCUpOf == [c \in MCConns |-> CASE c = "d" -> {"u1"} [] c = "q" -> {"u2"} [] OTHER -> {"u3", "u4"}]
MCUpstreams == {"u1", "u2", "u3", "u4"}
=============================================================================

CONSTANTS
  Conns <- TraceConns
  ReqSet <- SwapReqSet
  ListSeqs <- SwapHist2
  Connectors <- MC_Connectors
SPECIFICATION TraceSpec
INVARIANT Inv
CONSTRAINT Track
POSTCONDITION TraceAccepted
CHECK_DEADLOCK FALSE

--------------------------------- MODULE LB ---------------------------------
(* C17: member selection of the load-balancing connector (src/connectors/loadbalance.rs).          *)
(*   SelectRR(t)     round robin: ONE atomic step takes ticket = idx and advances idx               *)
(*   SelectHash(t,k) hash-by: member = H(key) mod n for a fixed (unknown) function H                *)
(*   SelectRandom(t) random: any member                                                            *)
(* Several tasks select concurrently (each selection is one atomic step of some task); every        *)
(* selection is appended to `sel`.                                                                *)
EXTENDS Naturals, Sequences, FiniteSets, TLC

CONSTANTS Members,     \* sequence of member names (n >= 1)
          Tasks, MaxSel,
          Keys,        \* keys requests may evaluate to
          H            \* [Keys -> Nat] the hash function (any function: the law must hold for all)

VARIABLES idx, sel, hmap
vars == <<idx, sel, hmap>>
N == Len(Members)

Init == idx = 0 /\ sel = <<>> /\ hmap = [k \in Keys |-> ""]

SelectRR(t) == /\ Len(sel) < MaxSel
               /\ idx' = idx + 1
               /\ sel' = Append(sel, [algo |-> "rr", ticket |-> idx, member |-> Members[(idx % N) + 1]])
               /\ UNCHANGED hmap
SelectHash(t, k) == /\ Len(sel) < MaxSel
                    /\ LET m == Members[(H[k] % N) + 1] IN
                         /\ sel' = Append(sel, [algo |-> "hash", key |-> k, member |-> m])
                         /\ hmap' = [hmap EXCEPT ![k] = m]
                    /\ UNCHANGED idx
SelectRandom(t) == /\ Len(sel) < MaxSel
                   /\ \E i \in 1..N : sel' = Append(sel, [algo |-> "random", member |-> Members[i]])
                   /\ UNCHANGED <<idx, hmap>>

Next == \E t \in Tasks : SelectRR(t) \/ SelectRandom(t) \/ \E k \in Keys : SelectHash(t, k)
Spec == Init /\ [][Next]_vars

MemberSet == {Members[i] : i \in 1..N}
RR == SelectSeq(sel, LAMBDA s : s.algo = "rr")
OnlyMembers == \A i \in 1..Len(sel) : sel[i].member \in MemberSet
(* tickets are handed out exactly once, in order *)
TicketsExact == \A i \in 1..Len(RR) : RR[i].ticket = i - 1
(* any window of k*n consecutive round-robin selections holds every member exactly k times *)
Count(s, m) == Cardinality({i \in 1..Len(s) : s[i].member = m})
WindowLaw == \A a \in 1..Len(RR) : \A k \in 1..(Len(RR) \div N) :
                (a + k * N - 1 <= Len(RR)) =>
                   \A i \in 1..N : Count(SubSeq(RR, a, a + k * N - 1), Members[i]) = k * Cardinality({j \in 1..N : Members[j] = Members[i]})
(* equal keys, equal member *)
HashStable == \A i, j \in 1..Len(sel) : (sel[i].algo = "hash" /\ sel[j].algo = "hash" /\ sel[i].key = sel[j].key) => sel[i].member = sel[j].member
Inv == OnlyMembers /\ TicketsExact /\ WindowLaw /\ HashStable
=============================================================================

---------------------------- MODULE TraceProxy ----------------------------
(* impl -> spec for C15 (and the routing half of C02 under concurrency): a log recorded while K     *)
(* client tasks run requests through the real process_request and one task posts rule lists        *)
(* through the real POST /rules code path.  Logged: req_begin / req_end (with the upstream that    *)
(* was invoked) and post_begin / post_end (with the reported result), ordered by one mutex.        *)
(* Everything between a begin and its end is internal: the spec's own actions Snapshot, EvalRule,   *)
(* Deny, FeatureGate, Connect*, Relay, Validate, Swap run as silent steps.  The trace is accepted  *)
(* iff some interleaving of the internal steps explains every logged result.                       *)
EXTENDS MCProxy, IOUtils

Rec == ndJsonDeserialize(IOEnv.TRACE)
Hdr == Rec[1]                      \* {"ev":"lists","seq":[1-based indices into SwapListSeq], "slots":K}
SwapListSeq == <<V1, V2, V3, Isyn, Ityp, Itgt, V7, V8>>
TraceLists == [i \in 1..Len(Hdr.seq) |-> SwapListSeq[Hdr.seq[i]]]
TraceConns == 1..Hdr.slots

VARIABLE l
tvars == <<vars, l>>

TraceInit == /\ l = 2
             /\ reqs = [c \in Conns |-> ProbeReqs[1]] /\ lists = TraceLists
             /\ rules = lists[1] /\ ver = 1 /\ posting = 0 /\ postPhase = "idle" /\ postOk = <<TRUE>>
             /\ phase = [c \in Conns |-> "denied"]          \* every slot starts out free
             /\ snap = [c \in Conns |-> NoSnap]
             /\ pos = [c \in Conns |-> 1] /\ evals = [c \in Conns |-> 0] /\ chosen = [c \in Conns |-> 0]
             /\ upOpened = [c \in Conns |-> FALSE] /\ upUp = [c \in Conns |-> FALSE]
             /\ replies = [c \in Conns |-> <<"fail">>]
             /\ log = [c \in Conns |-> <<"ClientConnected", "ErrorOccured">>]
             /\ began = [c \in Conns |-> 0] /\ endedPosts = [c \in Conns |-> 0]

More == l <= Len(Rec)
IsEvent(e) == More /\ Rec[l].ev = e /\ l' = l + 1

(* silent: free the slot for the request that is about to begin on it *)
SRecycle == /\ More /\ Rec[l].ev = "req_begin" /\ Terminal(Rec[l].slot)
            /\ Recycle(Rec[l].slot, ProbeReqs[Rec[l].req]) /\ l' = l
TReqBegin == /\ IsEvent("req_begin")
             /\ LET c == Rec[l].slot IN phase[c] = "new" /\ reqs[c] = ProbeReqs[Rec[l].req] /\ Enqueue(c)
TReqEnd == /\ IsEvent("req_end")
           /\ LET c == Rec[l].slot  e == Rec[l] IN
                /\ Terminal(c)
                /\ e.invoked = (IF upOpened[c] THEN Target(c) ELSE "none")
                /\ e.client = (IF phase[c] = "finished" THEN <<"connect", "finish">> ELSE <<"error">>)
           /\ UNCHANGED vars
TPostBegin == /\ IsEvent("post_begin") /\ SwapBegin /\ posting' = Rec[l].k
TPostEnd == /\ IsEvent("post_end") /\ SwapEnd /\ postOk'[Len(postOk')] = Rec[l].ok
Silent == /\ l' = l
          /\ \/ \E c \in Conns : Snapshot(c) \/ EvalRule(c) \/ Deny(c) \/ FeatureGate(c) \/ ConnectBegin(c)
                                 \/ ConnectFail(c) \/ ConnectOk(c) \/ RelayOk(c)
             \/ Validate \/ Swap

TraceNext == SRecycle \/ TReqBegin \/ TReqEnd \/ TPostBegin \/ TPostEnd \/ Silent
TraceSpec == TraceInit /\ [][TraceNext]_tvars

(* longest explained prefix; the log is accepted iff some behaviour consumed all of it *)
Track == IF l > TLCGet(42) THEN TLCSet(42, l) ELSE TRUE
ASSUME TLCSet(42, 0)
TraceAccepted ==
    IF TLCGet(42) > Len(Rec) THEN PrintT(<<"TRACE-ACCEPTED", Len(Rec)>>)
    ELSE /\ PrintT(<<"TRACE-REJECTED", "longest explained prefix", TLCGet(42) - 1, "of", Len(Rec),
                     "first unexplained", IF TLCGet(42) <= Len(Rec) THEN ToJson(Rec[TLCGet(42)]) ELSE "-">>)
         /\ FALSE
=============================================================================

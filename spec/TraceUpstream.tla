--------------------------- MODULE TraceUpstream ---------------------------
(* impl -> spec for C19.  The records are written by the scenario driver (tools/upstream_run.py) in the order    *)
(* in which it acts on ONE front proxy and its upstream processes:                                              *)
(*   fault     the driver killed (-9) / stalled (SIGSTOP) an upstream, or put an impostor on its port            *)
(*   restored  the driver restarted it (a new process) / continued it                                            *)
(*   probe     one CONNECT through the front proxy's connector `kind` with an echo round trip: outcome           *)
(*             ok / fail / hang, duration, and what the connector's get_connection logged meanwhile (op);         *)
(*             where the model demands success the driver replaces a failed attempt by one patient attempt        *)
(*   topen     a tunnel was opened through `kind` and left open                                                   *)
(*   tcheck    state of such a tunnel: closed (EOF / reset seen by the client) or still echoing                   *)
(* Every record carries the driver's clock `t` (tenths of a second).  The driver never probes a connector while   *)
(* it is changing that connector's upstream, so the order of the records is the order of the events.             *)
(* Silent steps: Advance (time passes up to the next record), IdleFire, LateCreate, GiveUp - inferred by TLC.    *)
(* The connectors of the scenario are fixed (World in upstream_run.py).                                          *)
EXTENDS Upstream, Json, IOUtils, TLCExt

Rec == ndJsonDeserialize(IOEnv.TRACE)
TConns == {"direct", "http", "socks", "quic", "lb", "ok"}
TKind == [c \in TConns |-> CASE c = "quic" -> "quic" [] c = "lb" -> "lb" [] OTHER -> "dial"]
TUpOf == [c \in TConns |-> IF c = "lb" THEN {"lb1", "lb2"} ELSE {c}]
TUpstreams == {"direct", "http", "socks", "quic", "lb1", "lb2", "ok"}
\* fault / restored records name the upstream process concerned (`up`); for the load balancer that is one of its members

VARIABLES l, topen                                     \* topen: [tunnel id -> record of the spec tunnel]
tvars == <<vars, l, topen>>
TraceInit == Init /\ l = 1 /\ topen = <<>>
Has == l <= Len(Rec)
AtTime == Has /\ now = Rec[l].t
IsEvent(e) == AtTime /\ Rec[l].ev = e /\ l' = l + 1

(* time passes up to the next record, never past a deadline of the model (the timer / the retry must act first) *)
Advance == /\ Has /\ now < Rec[l].t
           /\ LET dl == {lastHeard[c] + IdleMax : c \in {x \in Conns : IdleTimer /\ DeadUnnoticed(x)}}
                        \cup {okSince[TheUp(c)] + IdleMax : c \in {x \in Conns : pending[x] /\ ust[TheUp(x)] = "up"}}
                  lim == IF dl = {} THEN Rec[l].t ELSE LET m == CHOOSE x \in dl : \A y \in dl : x <= y IN IF m < Rec[l].t THEN m ELSE Rec[l].t
              IN /\ now < lim \/ dl = {}
                 /\ now' = lim
                 /\ lastHeard' = [c \in Conns |-> IF Live(c) THEN lim ELSE lastHeard[c]]
           /\ UNCHANGED <<ust, inc, cache, tunnels, okSince, late, pending, faults, l, topen>>
TFire == \E c \in Conns : IdleFire(c) /\ UNCHANGED <<l, topen>>
TLate == \E c \in Conns : (LateCreate(c) \/ GiveUp(c)) /\ UNCHANGED <<l, topen>>

TFault == /\ IsEvent("fault")
          /\ LET u == Rec[l].up IN
               CASE Rec[l].how = "kill" -> Kill(u)
                 [] Rec[l].how = "stall" -> Stall(u)
                 [] Rec[l].how = "hijack-close" -> Garble(u, "garbage")
                 [] Rec[l].how = "hijack-garbage" -> Garble(u, "garbage")
                 [] Rec[l].how = "hijack-hold" -> Garble(u, "holding")
          /\ UNCHANGED topen
TRestored == /\ IsEvent("restored")
             /\ LET u == Rec[l].up IN IF Rec[l].how = "stall" THEN Cont(u) ELSE Restart(u)
             /\ UNCHANGED topen
(* a probe: the outcome and the logged operation must be ones the model allows in this state; an "ok" must be quick *)
(* a request whose DESTINATION refuses while the upstream is fine: it fails, and that is all that happens -            *)
(* the upstream's other tunnels, its cached connection and the next requests are untouched                          *)
TProbeRefused == /\ IsEvent("probe") /\ Rec[l].dest = "closed"
                 /\ LET c == Rec[l].kind IN
                      IF \A u \in UpOf[c] : ust[u] = "up" /\ (Kind[c] = "quic" => Live(c))
                      THEN Rec[l].outcome = "fail" /\ Rec[l].op \in {"-", "reuse"}
                      ELSE Rec[l].outcome \in {"fail", "hang"}
                 /\ UNCHANGED <<vars, topen>>
TProbe == /\ IsEvent("probe") /\ Rec[l].dest = "origin"
          /\ Rec[l].outcome \in {"ok", "fail", "hang"}
          /\ Attempt(Rec[l].kind, Rec[l].outcome, Rec[l].op)
          /\ late'[Rec[l].kind] <= Spare(Rec[l].kind)           \* Recovery: an upstream that has been back long enough serves
          /\ (Rec[l].outcome = "ok" => Rec[l].ds <= 200)        \* the driver gives up after 20 s at the latest
          /\ UNCHANGED topen
TOpen == /\ IsEvent("topen")
         /\ \E u \in UpOf[Rec[l].kind] :
              /\ ust[u] = "up" /\ (Kind[Rec[l].kind] = "quic" => Live(Rec[l].kind))
              /\ LET t == [c |-> Rec[l].kind, u |-> u, inc |-> inc[u]] IN
                   /\ tunnels' = tunnels \cup {t}
                   /\ topen' = Append(topen, t)
         /\ UNCHANGED <<ust, inc, cache, lastHeard, now, okSince, late, pending, faults>>
(* a tunnel the client found closed must be one the model has ended; one that still echoes must be one it keeps. *)
(* For the load balancer the member behind a tunnel is not observable: any assignment of the open tunnels works.  *)
TCheck == /\ IsEvent("tcheck")
          /\ LET t == topen[Rec[l].tid] IN
               IF Rec[l].closed THEN t \notin tunnels ELSE (t \in tunnels /\ ~TunnelDead(t))
          /\ UNCHANGED <<vars, topen>>

TraceNext == Advance \/ TFire \/ TLate \/ TFault \/ TRestored \/ TProbe \/ TProbeRefused \/ TOpen \/ TCheck
TraceSpec == TraceInit /\ [][TraceNext]_tvars

(* progress register: the furthest record reached on any branch (silent steps make the diameter useless) *)
Track == (IF l > TLCGet(42) THEN TLCSet(42, l) ELSE TRUE)
ASSUME TLCSet(42, 0)
TraceAccepted ==
    LET d == TLCGet(42) IN
    IF d = Len(Rec) + 1 THEN PrintT(<<"TRACE-ACCEPTED", Len(Rec)>>)
    ELSE /\ PrintT(<<"TRACE-REJECTED", "matched", d - 1, "of", Len(Rec), "first unmatched", IF d <= Len(Rec) THEN ToJson(Rec[d]) ELSE "-">>)
         /\ FALSE
=============================================================================

CONSTANTS
  Frames <- MC_Frames
  NFrag <- MC_NFrag
  Wid <- MC_Wid
  Junk <- MC_Junk
  Timeout = 2
  MaxOps = 1000000
  MaxClock = 1000000
  MaxDup = 1000000
SPECIFICATION TraceSpec
INVARIANT OutSound
INVARIANT Discarded
POSTCONDITION TraceAccepted
CHECK_DEADLOCK FALSE

INIT Init
NEXT Next
INVARIANT TableSane
INVARIANT Emit
CHECK_DEADLOCK FALSE

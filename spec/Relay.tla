------------------------------- MODULE Relay -------------------------------
(* Data plane of one TCP tunnel (src/copy.rs copy_bidi / copy_half / drain_buffers, splice or       *)
(* buffered - the spec has a single behaviour set, no action reads the I/O mode): properties C01    *)
(* (byte-stream fidelity), C04 (end-of-stream and abort), C13 (idle timeout), byte counters of C16. *)
(* Direction d is "c2s" (client -> origin) or "s2c".  A token <<d, i>> is the i-th unit of payload  *)
(* written by the source of direction d (a byte in the micro scenarios that are trace-validated).   *)
(*                                                                                                 *)
(*  environment:  SrcWrite  SrcFin  SrcRst  DstRecv  DstEof  Tick                                   *)
(*  handshake:    ReadAhead(d,k)   bytes glued behind a handshake end up in the BufReader          *)
(*  RelayStart    copy_bidi begins: drain_buffers forwards what was read ahead      (relay_begin)   *)
(*  ProxyRead(d,k) / ProxyWrite(d)  one loop iteration of copy_half: read, write_all+flush  (xfer)  *)
(*  ProxyEof(d)   read returned 0                                                  (eof)           *)
(*  HalfShutdown(d) write side of the destination shut down (half_done);  LogHalf(d) (state)         *)
(*  Finish        both halves done: Terminated, sockets closed                     (state)         *)
(*  Abort         an endpoint reset the connection: ErrorOccured, both sockets closed              *)
(*  IdleAbort     both directions idle for longer than the timeout (checked once per tick)         *)
EXTENDS Naturals, Sequences, FiniteSets, TLC

CONSTANTS NTok, BufSz, MaxEarly, Idle, MaxClock

Dirs == {"c2s", "s2c"}
Opp(d) == IF d = "c2s" THEN "s2c" ELSE "c2s"
HalfName(d) == IF d = "c2s" THEN "ClientShutdown" ELSE "ServerShutdown"

VARIABLES phase, sent, srcSt, wireIn, ahead, pbuf, wireOut, finOut, recv, eofSeen, half, result, closedBoth,
          stat, log, clock, last, logged
vars == <<phase, sent, srcSt, wireIn, ahead, pbuf, wireOut, finOut, recv, eofSeen, half, result, closedBoth,
          stat, log, clock, last, logged>>

Toks(d, a, b) == [i \in 1..(b - a + 1) |-> <<d, a + i - 1>>]     \* tokens a..b of direction d
Min(a, b) == IF a < b THEN a ELSE b

Init == /\ phase = "handshake"
        /\ sent = [d \in Dirs |-> 0] /\ srcSt = [d \in Dirs |-> "open"]
        /\ wireIn = [d \in Dirs |-> <<>>] /\ ahead = [d \in Dirs |-> <<>>] /\ pbuf = [d \in Dirs |-> <<>>]
        /\ wireOut = [d \in Dirs |-> <<>>] /\ finOut = [d \in Dirs |-> FALSE]
        /\ recv = [d \in Dirs |-> <<>>] /\ eofSeen = [d \in Dirs |-> FALSE]
        /\ half = [d \in Dirs |-> "run"] /\ result = "run" /\ closedBoth = FALSE
        /\ stat = [d \in Dirs |-> 0] /\ log = <<"Connected">>
        /\ clock = 0 /\ last = [d \in Dirs |-> 0] /\ logged = [d \in Dirs |-> FALSE]

(* ---- environment ---- *)
SrcWrite(d) == /\ srcSt[d] = "open" /\ sent[d] < NTok /\ ~closedBoth
               /\ sent' = [sent EXCEPT ![d] = @ + 1]
               /\ wireIn' = [wireIn EXCEPT ![d] = Append(@, <<d, sent[d] + 1>>)]
               /\ UNCHANGED <<phase, srcSt, ahead, pbuf, wireOut, finOut, recv, eofSeen, half, result, closedBoth, stat, log, clock, last, logged>>
SrcFin(d) == /\ srcSt[d] = "open"
             /\ srcSt' = [srcSt EXCEPT ![d] = "fin"]
             /\ UNCHANGED <<phase, sent, wireIn, ahead, pbuf, wireOut, finOut, recv, eofSeen, half, result, closedBoth, stat, log, clock, last, logged>>
(* the endpoint that is the source of d aborts its connection *)
SrcRst(d) == /\ srcSt[d] \in {"open", "fin"} /\ phase = "relay"
             /\ srcSt' = [srcSt EXCEPT ![d] = "rst"]
             /\ UNCHANGED <<phase, sent, wireIn, ahead, pbuf, wireOut, finOut, recv, eofSeen, half, result, closedBoth, stat, log, clock, last, logged>>
DstRecv(d) == /\ wireOut[d] # <<>>
              /\ \E k \in 1..Len(wireOut[d]) :
                    /\ recv' = [recv EXCEPT ![d] = @ \o SubSeq(wireOut[d], 1, k)]
                    /\ wireOut' = [wireOut EXCEPT ![d] = SubSeq(@, k + 1, Len(@))]
              /\ UNCHANGED <<phase, sent, srcSt, wireIn, ahead, pbuf, finOut, eofSeen, half, result, closedBoth, stat, log, clock, last, logged>>
DstEof(d) == /\ wireOut[d] = <<>> /\ ~eofSeen[d] /\ (finOut[d] \/ closedBoth)
             /\ eofSeen' = [eofSeen EXCEPT ![d] = TRUE]
             /\ UNCHANGED <<phase, sent, srcSt, wireIn, ahead, pbuf, wireOut, finOut, recv, half, result, closedBoth, stat, log, clock, last, logged>>
Tick == /\ clock < MaxClock
        /\ clock' = clock + 1
        /\ UNCHANGED <<phase, sent, srcSt, wireIn, ahead, pbuf, wireOut, finOut, recv, eofSeen, half, result, closedBoth, stat, log, last, logged>>

(* ---- proxy ---- *)
ReadAhead(d) == /\ phase = "handshake"
                /\ \E k \in 1..Min(Len(wireIn[d]), MaxEarly - Len(ahead[d])) :
                      /\ ahead' = [ahead EXCEPT ![d] = @ \o SubSeq(wireIn[d], 1, k)]
                      /\ wireIn' = [wireIn EXCEPT ![d] = SubSeq(@, k + 1, Len(@))]
                /\ UNCHANGED <<phase, sent, srcSt, pbuf, wireOut, finOut, recv, eofSeen, half, result, closedBoth, stat, log, clock, last, logged>>
RelayStart == /\ phase = "handshake"
              /\ phase' = "relay"
              /\ wireOut' = [d \in Dirs |-> wireOut[d] \o ahead[d]]
              /\ stat' = [d \in Dirs |-> stat[d] + Len(ahead[d])]
              /\ ahead' = [d \in Dirs |-> <<>>]
              /\ last' = [d \in Dirs |-> clock]
              /\ UNCHANGED <<sent, srcSt, wireIn, pbuf, finOut, recv, eofSeen, half, result, closedBoth, log, clock, logged>>
Live(d) == phase = "relay" /\ result = "run" /\ half[d] = "run"
ProxyRead(d) == /\ Live(d) /\ pbuf[d] = <<>> /\ wireIn[d] # <<>> /\ srcSt[d] # "rst" /\ srcSt[Opp(d)] # "rst"
                /\ \E k \in 1..Min(Len(wireIn[d]), BufSz) :
                      /\ pbuf' = [pbuf EXCEPT ![d] = SubSeq(wireIn[d], 1, k)]
                      /\ wireIn' = [wireIn EXCEPT ![d] = SubSeq(@, k + 1, Len(@))]
                /\ UNCHANGED <<phase, sent, srcSt, ahead, wireOut, finOut, recv, eofSeen, half, result, closedBoth, stat, log, clock, last, logged>>
ProxyWrite(d) == /\ Live(d) /\ pbuf[d] # <<>> /\ srcSt[Opp(d)] # "rst"
                 /\ wireOut' = [wireOut EXCEPT ![d] = @ \o pbuf[d]]
                 /\ stat' = [stat EXCEPT ![d] = @ + Len(pbuf[d])]
                 /\ pbuf' = [pbuf EXCEPT ![d] = <<>>]
                 /\ last' = [last EXCEPT ![d] = clock]
                 /\ UNCHANGED <<phase, sent, srcSt, wireIn, ahead, finOut, recv, eofSeen, half, result, closedBoth, log, clock, logged>>
ProxyEof(d) == /\ Live(d) /\ pbuf[d] = <<>> /\ wireIn[d] = <<>> /\ srcSt[d] = "fin"
               /\ half' = [half EXCEPT ![d] = "eof"]
               /\ UNCHANGED <<phase, sent, srcSt, wireIn, ahead, pbuf, wireOut, finOut, recv, eofSeen, result, closedBoth, stat, log, clock, last, logged>>
HalfShutdown(d) == /\ phase = "relay" /\ result = "run" /\ half[d] = "eof" /\ srcSt[Opp(d)] # "rst"
                   /\ finOut' = [finOut EXCEPT ![d] = TRUE]
                   /\ half' = [half EXCEPT ![d] = "done"]
                   /\ UNCHANGED <<phase, sent, srcSt, wireIn, ahead, pbuf, wireOut, recv, eofSeen, result, closedBoth, stat, log, clock, last, logged>>
(* copy_bidi notices that a half has completed and records ClientShutdown / ServerShutdown *)
LogHalf(d) == /\ phase = "relay" /\ result = "run" /\ half[d] = "done" /\ ~logged[d]
              /\ logged' = [logged EXCEPT ![d] = TRUE] /\ log' = Append(log, HalfName(d))
              /\ UNCHANGED <<phase, sent, srcSt, wireIn, ahead, pbuf, wireOut, finOut, recv, eofSeen, half, result, closedBoth, stat, clock, last>>
Finish == /\ result = "run" /\ \A d \in Dirs : half[d] = "done" /\ logged[d]
          /\ result' = "finished" /\ closedBoth' = TRUE /\ log' = Append(log, "Terminated") /\ phase' = "done"
          /\ UNCHANGED <<sent, srcSt, wireIn, ahead, pbuf, wireOut, finOut, recv, eofSeen, half, stat, clock, last, logged>>
Abort == /\ phase = "relay" /\ result = "run" /\ \E d \in Dirs : srcSt[d] = "rst"
         /\ result' = "error" /\ closedBoth' = TRUE /\ log' = Append(log, "ErrorOccured") /\ phase' = "done"
         /\ UNCHANGED <<sent, srcSt, wireIn, ahead, pbuf, wireOut, finOut, recv, eofSeen, half, stat, clock, last, logged>>
IdleExpired == Idle > 0 /\ \A d \in Dirs : clock - last[d] > Idle
IdleAbort == /\ phase = "relay" /\ result = "run" /\ IdleExpired
             /\ result' = "error" /\ closedBoth' = TRUE /\ log' = Append(log, "ErrorOccured") /\ phase' = "done"
             /\ UNCHANGED <<sent, srcSt, wireIn, ahead, pbuf, wireOut, finOut, recv, eofSeen, half, stat, clock, last, logged>>

ProxyNext == RelayStart \/ Finish \/ Abort \/ IdleAbort
             \/ \E d \in Dirs : ReadAhead(d) \/ ProxyRead(d) \/ ProxyWrite(d) \/ ProxyEof(d) \/ HalfShutdown(d) \/ LogHalf(d)
EnvNext == Tick \/ \E d \in Dirs : SrcWrite(d) \/ SrcFin(d) \/ SrcRst(d) \/ DstRecv(d) \/ DstEof(d)
Next == ProxyNext \/ EnvNext
Fair == /\ WF_vars(RelayStart) /\ WF_vars(Finish) /\ WF_vars(Abort)
        /\ \A d \in Dirs : WF_vars(ProxyRead(d)) /\ WF_vars(ProxyWrite(d)) /\ WF_vars(ProxyEof(d)) /\ WF_vars(HalfShutdown(d)) /\ WF_vars(LogHalf(d))
                           /\ WF_vars(DstRecv(d)) /\ WF_vars(DstEof(d))
Spec == Init /\ [][Next]_vars /\ Fair

---------------------------------------------------------------------------
NoReset == \A d \in Dirs : srcSt[d] # "rst"
Clean == NoReset /\ result # "error"
(* C01: exactly once, in order, unmodified, nothing foreign *)
Conservation == Clean => \A d \in Dirs :
                   recv[d] \o wireOut[d] \o pbuf[d] \o ahead[d] \o wireIn[d] = Toks(d, 1, sent[d])
PrefixOnly == \A d \in Dirs : \E n \in 0..sent[d] : recv[d] = Toks(d, 1, n)
(* C04 *)
EofAfterData == \A d \in Dirs : (eofSeen[d] /\ Clean) => (recv[d] = Toks(d, 1, sent[d]) /\ srcSt[d] = "fin")
FinishedMeansBoth == result = "finished" => \A d \in Dirs : half[d] = "done" /\ finOut[d]
ClosedOnlyAtEnd == closedBoth => result \in {"finished", "error"}
(* one direction ending never stops the other: while the tunnel runs and the other source is still open, its data can flow *)
OtherDirectionAlive == \A d \in Dirs : (Clean /\ result = "run" /\ phase = "relay" /\ finOut[d] /\ half[Opp(d)] = "run" /\ wireIn[Opp(d)] # <<>> /\ pbuf[Opp(d)] = <<>>)
                          => ENABLED ProxyRead(Opp(d))
LogShape == /\ log[1] = "Connected"
            /\ Cardinality({i \in 1..Len(log) : log[i] \in {"Terminated", "ErrorOccured"}}) = (IF result = "run" THEN 0 ELSE 1)
            /\ (result # "run" => log[Len(log)] \in {"Terminated", "ErrorOccured"})
(* C16 counters *)
Counters == result = "finished" => \A d \in Dirs : stat[d] = sent[d]
(* C13 *)
IdleOnlyWhenIdle == (result = "error" /\ NoReset) => IdleExpired
Inv == Conservation /\ PrefixOnly /\ EofAfterData /\ FinishedMeansBoth /\ ClosedOnlyAtEnd /\ OtherDirectionAlive /\ LogShape /\ Counters /\ IdleOnlyWhenIdle

(* liveness (fair proxy and receivers): a half close is delivered; both closed => finished *)
FinDelivered == \A d \in Dirs : (srcSt[d] = "fin" /\ phase = "relay") ~> (eofSeen[d] \/ ~Clean)
BothFinFinishes == (\A d \in Dirs : srcSt[d] = "fin") ~> (result # "run")
=============================================================================

------------------------------ MODULE ProbeLocks ------------------------------
(* C14 binding: Locks.tla (MCLocks: task programs of the handshakes, dispatch, API handlers and gc, every  *)
(* stall set) shows that with the programs of this tree nothing a healthy task needs is ever held across a  *)
(* wait for a stalled peer: every healthy task finishes.  Prediction for the running proxy: whatever other  *)
(* clients are stalled at (any offset of their handshake, a tunnel blocked on a slow peer), every API        *)
(* endpoint answers and a fresh connection on every listener is served.  The driver recorded one `probe`     *)
(* per (stall situation, endpoint / listener) with a deadline of 5 s next to a positive control taken        *)
(* before anything was stalled; this module checks every record against the prediction.                     *)
EXTENDS Naturals, Sequences, TLC, Json, IOUtils
Rec == ndJsonDeserialize(IOEnv.PROBES)
Predicted(r) == TRUE          \* NoStallPropagation: the probe's task is healthy, hence completes
VARIABLE i
Init == i = 1
Next == i <= Len(Rec) /\ i' = i + 1
Emit == (i <= Len(Rec) /\ Rec[i].ok # Predicted(Rec[i])) => PrintT(<<"CASE", ToJson([idx |-> i, rec |-> Rec[i]])>>)
=============================================================================

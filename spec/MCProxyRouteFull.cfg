CONSTANTS
  Conns = {1}
  ReqSet <- MC_ReqSet
  ListSeqs <- RouteFull
  Connectors <- MC_Connectors
INIT Init
NEXT Next
INVARIANT Inv
INVARIANT EmitRoute
CHECK_DEADLOCK FALSE

------------------------------- MODULE Proxy -------------------------------
(* Control plane of the proxy: one connection's way from the queue to a terminal state             *)
(* (src/main.rs process_request, src/rules/mod.rs, src/context.rs callbacks) and the rule list      *)
(* with its hot swap (GlobalState::set_rules, metrics.rs post_rules).                              *)
(*                                                                                                 *)
(*   Enqueue(c)        listener finished its handshake, context queued     state ClientRequested    *)
(*   Snapshot(c)       process_request takes the read guard on the rule list (one version)          *)
(*   EvalRule(c)       Rule::evaluate on the next rule of that snapshot                             *)
(*   Decided(c)        find_map returned: first rule whose filter is TRUE, else none               *)
(*   Deny(c)           implicit (no rule) or explicit (target deny)        on_error, ErrorOccured   *)
(*   FeatureGate(c)    connector lacks the requested feature               on_error                 *)
(*   ConnectOk/Fail(c) connector.connect                                   ServerConnecting         *)
(*   OnConnect(c)      reply "established" to the client                   Connected                *)
(*   Relay(c)          copy_bidi finished ok / with error                  Terminated/ErrorOccured  *)
(*   SwapBegin/Validate/Swap/SwapEnd   set_rules: every rule compiles, type-checks and names an     *)
(*                     existing connector, then ONE assignment under the write guard               *)
(* Properties: C02 (RoutedByFirstMatch, NothingLeaks), C15 (AllOrNothing, OneVersion, NewAfterEnd), *)
(* C06 (ReplyIffUp, AtMostOneReply), lifecycle part of C16 (LogShape).                              *)
EXTENDS Integers, Sequences, FiniteSets, TLC

CONSTANTS Conns,        \* connection ids of this instance
          ReqSet,       \* requests a connection may carry
          ListSeqs,     \* set of sequences of rule lists: element 1 is loaded at start, the others are posted in order
          Connectors    \* [name -> [features, fails]]  ("deny" is not a connector)

(* a rule is [f |-> filter id, t |-> target name, ok |-> TRUE if it compiles and type-checks] *)

---------------------------------------------------------------------------
(* filters: id, concrete milu text, meaning *)
FilterText(f) ==
  CASE f = "true"  -> "1 == 1"
    [] f = "false" -> "1 == 2"
    [] f = "err"   -> "to_integer(request.target.host) == 7"
    [] f = "l1"    -> "request.listener == \"l1\""
    [] f = "udp"   -> "request.feature == \"UdpForward\""
    [] f = "ubind" -> "request.feature == \"UdpBind\""
    [] f = "src10" -> "cidr_match(request.source.host, \"10.0.0.0/8\")"
    [] f = "p80"   -> "request.target.port == 80"
    [] f = "dom"   -> "request.target.type == \"domain\""
    [] f = "host"  -> "request.target.host == \"ex.com\""
    [] f = "srcre" -> "request.source =~ \"^10[.]0[.]0[.]1:\""
    [] f = "tgt"   -> "request.target == \"ex.com:80\""
    [] f = "tgt6"  -> "request.target == \"[2001:db8::1]:80\""
    [] f = "src6"  -> "request.source == \"[::1]:3\""
    [] f = "syntax" -> "request.listener == "            \* does not compile
    [] f = "illtyped" -> "request.listener + 1"           \* compiles, does not type-check (not boolean)
    [] f = "none"  -> ""
FilterIds == {"none", "true", "false", "err", "l1", "udp", "ubind", "src10", "p80", "dom", "host", "srcre", "tgt", "tgt6", "src6"}
BadFilterIds == {"syntax", "illtyped"}

IsDigits(h) == h \in {"7", "80", "65535"}
(* "T" / "F" / "E" (evaluation failed: counts as not matching) *)
B(x) == IF x THEN "T" ELSE "F"
Holds(f, r) ==
  CASE f \in {"none", "true"} -> "T"
    [] f = "false" -> "F"
    [] f = "err"   -> IF r.target.kind = "domain" /\ IsDigits(r.target.host) THEN B(r.target.host = "7") ELSE "E"
    [] f = "l1"    -> B(r.listener = "l1")
    [] f = "udp"   -> B(r.feature = "UdpForward")
    [] f = "ubind" -> B(r.feature = "UdpBind")
    [] f = "src10" -> B(r.source.in10)
    [] f = "p80"   -> B(r.target.port = 80)
    [] f = "dom"   -> B(r.target.kind = "domain")
    [] f = "host"  -> B(r.target.host = "ex.com")
    [] f = "srcre" -> B(r.source.txt = "10.0.0.1:1000")
    [] f = "tgt"   -> B(r.target.kind = "domain" /\ r.target.host = "ex.com" /\ r.target.port = 80)
    [] f = "tgt6"  -> B(r.target.kind = "ipv6" /\ r.target.host = "2001:db8::1" /\ r.target.port = 80)      \* an address with its port is written [v6]:port
    [] f = "src6"  -> B(r.source.txt = "[::1]:3")
Matches(rule, r) == Holds(rule.f, r) = "T"

RECURSIVE FirstMatchFrom(_, _, _)
FirstMatchFrom(rules, r, i) == IF i > Len(rules) THEN 0 ELSE IF Matches(rules[i], r) THEN i ELSE FirstMatchFrom(rules, r, i + 1)
FirstMatch(rules, r) == FirstMatchFrom(rules, r, 1)

(* the upstream that serves request r under rule list `list`: a connector name, or "refused" *)
Decision(list, r, conns) ==
  LET i == FirstMatch(list, r) IN
  IF i = 0 THEN "refused"
  ELSE IF list[i].t = "deny" THEN "refused"
  ELSE IF r.feature \notin conns[list[i].t].features THEN "refused"
  ELSE list[i].t

(* set_rules accepts a list iff every rule compiles, type-checks and names deny or an existing connector *)
Valid(list) == \A i \in 1..Len(list) : list[i].f \notin BadFilterIds /\ (list[i].t = "deny" \/ list[i].t \in DOMAIN Connectors)

---------------------------------------------------------------------------
VARIABLES reqs,       \* [Conns -> request]   (chosen initially, never changes)
          lists,      \* the sequence of rule lists of this behaviour (chosen initially, never changes)
          rules,      \* the list in force
          ver,        \* how many successful swaps happened (version of `rules`)
          posting,    \* index into Lists of the list being posted, 0 = none
          postPhase,  \* "idle" | "validating" | "swapping" | "done"
          postOk,     \* history: [index -> TRUE/FALSE] result reported for each finished post
          phase,      \* per connection
          snap,       \* per connection: snapshot of the rule list + its version
          pos,        \* per connection: next rule to evaluate
          evals,      \* per connection: number of rule evaluations done
          chosen,     \* per connection: 0 none yet / index of matching rule / -1 no rule matched
          upOpened,   \* per connection: connector.connect was called (an upstream connection may exist)
          upUp,       \* per connection: upstream established
          replies,    \* per connection: sequence of "ok" / "fail" sent to the client
          log,        \* per connection: recorded state list
          began,      \* per connection: ver at the moment the request began (for NewAfterEnd)
          endedPosts  \* per connection: posts finished before the request began

vars == <<reqs, lists, rules, ver, posting, postPhase, postOk, phase, snap, pos, evals, chosen, upOpened, upUp, replies, log, began, endedPosts>>

NoSnap == [list |-> <<>>, ver |-> 0]

Init == /\ reqs \in [Conns -> ReqSet] /\ lists \in ListSeqs
        /\ rules = lists[1] /\ ver = 1 /\ posting = 0 /\ postPhase = "idle" /\ postOk = <<TRUE>>
        /\ phase = [c \in Conns |-> "new"]
        /\ snap = [c \in Conns |-> NoSnap]
        /\ pos = [c \in Conns |-> 1] /\ evals = [c \in Conns |-> 0] /\ chosen = [c \in Conns |-> 0]
        /\ upOpened = [c \in Conns |-> FALSE] /\ upUp = [c \in Conns |-> FALSE]
        /\ replies = [c \in Conns |-> <<>>]
        /\ log = [c \in Conns |-> <<"ClientConnected">>]
        /\ began = [c \in Conns |-> 0] /\ endedPosts = [c \in Conns |-> 0]

Terminal(c) == phase[c] \in {"denied", "nofeature", "connfail", "finished"}
Push(c, st) == log' = [log EXCEPT ![c] = Append(@, st)]

Enqueue(c) == /\ phase[c] = "new"
              /\ phase' = [phase EXCEPT ![c] = "queued"] /\ Push(c, "ClientRequested")
              /\ began' = [began EXCEPT ![c] = ver] /\ endedPosts' = [endedPosts EXCEPT ![c] = Len(postOk)]
              /\ UNCHANGED <<reqs, lists, rules, ver, posting, postPhase, postOk, snap, pos, evals, chosen, upOpened, upUp, replies>>

(* the read guard is taken once; while a reader holds it the writer of set_rules waits *)
Snapshot(c) == /\ phase[c] = "queued"
               /\ snap' = [snap EXCEPT ![c] = [list |-> rules, ver |-> ver]]
               /\ phase' = [phase EXCEPT ![c] = "deciding"]
               /\ UNCHANGED <<reqs, lists, rules, ver, posting, postPhase, postOk, pos, evals, chosen, upOpened, upUp, replies, log, began, endedPosts>>

EvalRule(c) == /\ phase[c] = "deciding" /\ chosen[c] = 0
               /\ IF pos[c] > Len(snap[c].list) THEN
                     chosen' = [chosen EXCEPT ![c] = -1] /\ UNCHANGED <<pos, evals>>
                  ELSE
                     /\ evals' = [evals EXCEPT ![c] = @ + 1]
                     /\ IF Matches(snap[c].list[pos[c]], reqs[c])
                        THEN chosen' = [chosen EXCEPT ![c] = pos[c]] /\ UNCHANGED pos
                        ELSE pos' = [pos EXCEPT ![c] = @ + 1] /\ UNCHANGED chosen
               /\ UNCHANGED <<reqs, lists, rules, ver, posting, postPhase, postOk, phase, snap, upOpened, upUp, replies, log, began, endedPosts>>

Target(c) == IF chosen[c] > 0 THEN snap[c].list[chosen[c]].t ELSE "none"
HasFeature(c) == reqs[c].feature \in Connectors[Target(c)].features

Fail(c, ph) == /\ phase' = [phase EXCEPT ![c] = ph] /\ Push(c, "ErrorOccured")
               /\ replies' = [replies EXCEPT ![c] = Append(@, "fail")]

Deny(c) == /\ phase[c] = "deciding" /\ chosen[c] # 0 /\ Target(c) \in {"none", "deny"}
           /\ Fail(c, "denied")
           /\ UNCHANGED <<reqs, lists, rules, ver, posting, postPhase, postOk, snap, pos, evals, chosen, upOpened, upUp, began, endedPosts>>

FeatureGate(c) == /\ phase[c] = "deciding" /\ chosen[c] > 0 /\ Target(c) # "deny" /\ ~HasFeature(c)
                  /\ Fail(c, "nofeature")
                  /\ UNCHANGED <<reqs, lists, rules, ver, posting, postPhase, postOk, snap, pos, evals, chosen, upOpened, upUp, began, endedPosts>>

ConnectBegin(c) == /\ phase[c] = "deciding" /\ chosen[c] > 0 /\ Target(c) # "deny" /\ HasFeature(c)
                   /\ phase' = [phase EXCEPT ![c] = "connecting"] /\ Push(c, "ServerConnecting")
                   /\ upOpened' = [upOpened EXCEPT ![c] = TRUE]
                   /\ UNCHANGED <<reqs, lists, rules, ver, posting, postPhase, postOk, snap, pos, evals, chosen, upUp, replies, began, endedPosts>>

ConnectFail(c) == /\ phase[c] = "connecting" /\ Connectors[Target(c)].fails
                  /\ Fail(c, "connfail")
                  /\ UNCHANGED <<reqs, lists, rules, ver, posting, postPhase, postOk, snap, pos, evals, chosen, upOpened, upUp, began, endedPosts>>

ConnectOk(c) == /\ phase[c] = "connecting" /\ ~Connectors[Target(c)].fails
                /\ upUp' = [upUp EXCEPT ![c] = TRUE]
                /\ phase' = [phase EXCEPT ![c] = "connected"] /\ Push(c, "Connected")
                /\ replies' = [replies EXCEPT ![c] = Append(@, "ok")]      \* on_connect callback
                /\ UNCHANGED <<reqs, lists, rules, ver, posting, postPhase, postOk, snap, pos, evals, chosen, upOpened, began, endedPosts>>

RelayOk(c) == /\ phase[c] = "connected"
              /\ phase' = [phase EXCEPT ![c] = "finished"]
              /\ \E halves \in {<<"ClientShutdown", "ServerShutdown">>, <<"ServerShutdown", "ClientShutdown">>} :
                    log' = [log EXCEPT ![c] = @ \o halves \o <<"Terminated">>]
              /\ UNCHANGED <<reqs, lists, rules, ver, posting, postPhase, postOk, snap, pos, evals, chosen, upOpened, upUp, replies, began, endedPosts>>

(* a finished connection slot is reused for the next request of the same client task (trace validation only) *)
Recycle(c, r) == /\ Terminal(c)
                 /\ reqs' = [reqs EXCEPT ![c] = r]
                 /\ phase' = [phase EXCEPT ![c] = "new"] /\ snap' = [snap EXCEPT ![c] = NoSnap]
                 /\ pos' = [pos EXCEPT ![c] = 1] /\ evals' = [evals EXCEPT ![c] = 0] /\ chosen' = [chosen EXCEPT ![c] = 0]
                 /\ upOpened' = [upOpened EXCEPT ![c] = FALSE] /\ upUp' = [upUp EXCEPT ![c] = FALSE]
                 /\ replies' = [replies EXCEPT ![c] = <<>>] /\ log' = [log EXCEPT ![c] = <<"ClientConnected">>]
                 /\ UNCHANGED <<lists, rules, ver, posting, postPhase, postOk, began, endedPosts>>

---------------------------------------------------------------------------
(* rule hot swap *)
SwapBegin == /\ postPhase = "idle" /\ Len(postOk) < Len(lists)
             /\ posting' = Len(postOk) + 1 /\ postPhase' = "validating"
             /\ UNCHANGED <<reqs, lists, rules, ver, postOk, phase, snap, pos, evals, chosen, upOpened, upUp, replies, log, began, endedPosts>>

Validate == /\ postPhase = "validating"
            /\ postPhase' = IF Valid(lists[posting]) THEN "swapping" ELSE "rejected"
            /\ UNCHANGED <<reqs, lists, rules, ver, posting, postOk, phase, snap, pos, evals, chosen, upOpened, upUp, replies, log, began, endedPosts>>

(* the single assignment under the write guard: no reader holds a snapshot guard at that instant.   *)
(* (A snapshot is a copy here, so the guard is modelled by the copy being taken atomically.)        *)
Swap == /\ postPhase = "swapping"
        /\ rules' = lists[posting] /\ ver' = ver + 1 /\ postPhase' = "accepted"
        /\ UNCHANGED <<reqs, lists, posting, postOk, phase, snap, pos, evals, chosen, upOpened, upUp, replies, log, began, endedPosts>>

SwapEnd == /\ postPhase \in {"accepted", "rejected"}
           /\ postOk' = Append(postOk, postPhase = "accepted")
           /\ postPhase' = "idle" /\ posting' = 0
           /\ UNCHANGED <<reqs, lists, rules, ver, phase, snap, pos, evals, chosen, upOpened, upUp, replies, log, began, endedPosts>>

Next == \/ \E c \in Conns : Enqueue(c) \/ Snapshot(c) \/ EvalRule(c) \/ Deny(c) \/ FeatureGate(c) \/ ConnectBegin(c)
                            \/ ConnectFail(c) \/ ConnectOk(c) \/ RelayOk(c)
        \/ SwapBegin \/ Validate \/ Swap \/ SwapEnd

Spec == Init /\ [][Next]_vars

---------------------------------------------------------------------------
Served(c) == phase[c] \in {"connecting", "connected", "finished", "connfail"}

(* C02 *)
RoutedByFirstMatch ==
  \A c \in Conns : chosen[c] # 0 =>
     /\ chosen[c] = (IF FirstMatch(snap[c].list, reqs[c]) = 0 THEN -1 ELSE FirstMatch(snap[c].list, reqs[c]))
     /\ evals[c] = (IF chosen[c] = -1 THEN Len(snap[c].list) ELSE chosen[c])
NothingLeaks ==
  \A c \in Conns : (chosen[c] # 0 /\ (Target(c) \in {"none", "deny"} \/ ~HasFeature(c))) =>
     /\ ~upOpened[c] /\ ~upUp[c]
     /\ (Terminal(c) => replies[c] = <<"fail">>)
UpstreamIsChosen == \A c \in Conns : upOpened[c] => (chosen[c] > 0 /\ Target(c) \in DOMAIN Connectors /\ HasFeature(c))

(* C06 *)
ReplyIffUp == \A c \in Conns : ("ok" \in {replies[c][i] : i \in 1..Len(replies[c])}) => upUp[c]
AtMostOneReply == \A c \in Conns : Len(replies[c]) <= 1
TerminalHasReply == \A c \in Conns : Terminal(c) => Len(replies[c]) = 1

(* C15 *)
AllOrNothing == /\ Valid(rules)
                /\ \E k \in 1..Len(lists) : rules = lists[k]
OneVersion == \A c \in Conns : snap[c] # NoSnap => \E k \in 1..Len(lists) : snap[c].list = lists[k] /\ Valid(lists[k])
(* a request that begins after a post has returned is decided by a version not older than that post's *)
NewAfterEnd == \A c \in Conns : snap[c] # NoSnap => snap[c].ver >= began[c]

(* C16: recorded state sequence follows the lifecycle, exactly one terminal state *)
IsPrefixOf(s, t) == Len(s) <= Len(t) /\ SubSeq(t, 1, Len(s)) = s
LogShape == \A c \in Conns :
   LET l == log[c] IN
   /\ l[1] = "ClientConnected"
   /\ Cardinality({i \in 1..Len(l) : l[i] \in {"Terminated", "ErrorOccured"}}) = (IF Terminal(c) THEN 1 ELSE 0)
   /\ (Terminal(c) => l[Len(l)] \in {"Terminated", "ErrorOccured"})

Inv == RoutedByFirstMatch /\ NothingLeaks /\ UpstreamIsChosen /\ ReplyIffUp /\ AtMostOneReply /\ TerminalHasReply
       /\ AllOrNothing /\ OneVersion /\ NewAfterEnd /\ LogShape
=============================================================================

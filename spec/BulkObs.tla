------------------------------- MODULE BulkObs -------------------------------
(* C01 at scale: multi-megabyte transfers with slow readers and concurrent tunnels cannot be replayed   *)
(* token by token.  For a tunnel that both sides ended with FIN and that the proxy recorded as          *)
(* finished, Relay.tla's invariants at the terminal state say (EofAfterData, Conservation, Counters):    *)
(*     recv[d] = Toks(d, 1, sent[d])   and   stat[d] = sent[d]      for both directions.                 *)
(* The driver records, per direction, how many bytes were written, how many were received, whether      *)
(* they are exactly the payload stream's prefix of that length (first diverging offset otherwise),      *)
(* whether end-of-stream was seen after them, and the proxy's byte counters from its drop event.        *)
(* This module evaluates the terminal-state predicate on every such record.                            *)
EXTENDS Naturals, Sequences, TLC, Json, IOUtils

Rec == ndJsonDeserialize(IOEnv.BULK)
Dirs == {"c2s", "s2c"}
Good(r) == /\ \A d \in Dirs : /\ r.recv[d] = r.sent[d]
                              /\ r.intact[d]
                              /\ r.eof[d]
           /\ r.terminated
           /\ r.c_bytes = r.sent["c2s"] /\ r.s_bytes = r.sent["s2c"]
VARIABLE i
Init == i = 1
Next == i <= Len(Rec) /\ i' = i + 1
Emit == (i <= Len(Rec) /\ ~Good(Rec[i])) => PrintT(<<"CASE", ToJson([idx |-> i, rec |-> Rec[i]])>>)
=============================================================================

\* verdict cache: 2 pairs (same user, two passwords), truth changes, waits; every history of 6 steps
CONSTANTS
  Pairs = {"u:p1", "u:p2"}
  MaxSteps = 6
  CacheOn = TRUE
INIT CInit
NEXT CNext
INVARIANT CacheSound
INVARIANT EmitHist
CHECK_DEADLOCK FALSE

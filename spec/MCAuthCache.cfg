\* verdict cache: 2 pairs whose user and password run together to the same text (ab + c, a + bc): a key must keep them apart, truth changes, waits; every history of 6 steps
CONSTANTS
  Pairs = {"ab:c", "a:bc"}
  MaxSteps = 6
  CacheOn = TRUE
INIT CInit
NEXT CNext
INVARIANT CacheSound
INVARIANT EmitHist
CHECK_DEADLOCK FALSE

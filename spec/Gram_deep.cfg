\* used with -simulate: random chains up to depth 6
CONSTANTS
  MaxDepth = 6
  DeepOps <- Ops
  Forks = FALSE
INIT Init
NEXT Next
INVARIANT RenderSane
INVARIANT Emit
CHECK_DEADLOCK FALSE

------------------------------- MODULE Segm -------------------------------
(* C12: a byte string (message of MsgLen bytes followed by Trail bytes of tunnel payload) reaches   *)
(* an incremental decoder in arbitrary segments.  The decoder reads through a read-ahead buffer of *)
(* capacity Cap (tokio BufReader as used by make_buffered_stream) and consumes exactly the bytes   *)
(* of the message (read_exact / read_until / read_line style: it never acts on a short read and    *)
(* never consumes past the end of the message).  Whatever is left in the buffer plus what the      *)
(* network still holds is forwarded to the tunnel (copy.rs drain_buffers, then the relay loop).    *)
(*                                                                                                 *)
(* Checked by TLC for every segmentation (the initial state ranges over all compositions of the    *)
(* stream length) and every truncation point:                                                     *)
(*    Conservation   nothing is lost or duplicated between network, buffer and decoder            *)
(*    Insensitive    at Finish the leftover is exactly the trailing payload                        *)
(*    TruncSafe      a truncated stream never finishes with a message                              *)
(* The same module is the case generator for the binding: every composition / truncation point     *)
(* for the lengths of the real messages is printed and replayed on the real decoders.             *)
EXTENDS Naturals, Sequences, FiniteSets, TLC, Json

CONSTANTS MsgLen, Trail, Cap, Lens, Gen   \* Gen = TRUE: generator mode (initial states only)

VARIABLES net,       \* remaining segment sizes, not yet delivered
          avail,     \* delivered, not yet read by the buffered reader
          buf,       \* read-ahead buffer content (count)
          consumed,  \* bytes consumed by the decoder
          result,    \* "run" | "ok" | "fail"
          left,      \* leftover handed to the tunnel at Finish
          trunc,     \* stream was cut short at this offset (0 = not truncated)
          segs       \* the composition chosen initially (for the generator)
vars == <<net, avail, buf, consumed, result, left, trunc, segs>>

RECURSIVE Sum(_)
Sum(s) == IF s = <<>> THEN 0 ELSE Head(s) + Sum(Tail(s))

(* all compositions of n (ordered sequences of positive integers summing to n) *)
RECURSIVE Comps(_)
Comps(n) == IF n = 0 THEN {<<>>}
            ELSE UNION {{<<k>> \o c : c \in Comps(n - k)} : k \in 1..n}

Total == MsgLen + Trail

Init == /\ \E tr \in {0} \cup 1..(MsgLen - 1) :      \* truncation point (0 = complete stream incl. trailing)
             /\ trunc = tr
             /\ segs \in Comps(IF tr = 0 THEN Total ELSE tr)
        /\ net = segs /\ avail = 0 /\ buf = 0 /\ consumed = 0 /\ result = "run" /\ left = 0

NetDeliver == /\ net # <<>> /\ result = "run"
              /\ avail' = avail + Head(net) /\ net' = Tail(net)
              /\ UNCHANGED <<buf, consumed, result, left, trunc, segs>>

(* the buffered reader refills only when its buffer is empty, with whatever one read returns *)
Fill == /\ result = "run" /\ buf = 0 /\ avail > 0
        /\ \E k \in 1..(IF avail < Cap THEN avail ELSE Cap) :
              /\ buf' = k /\ avail' = avail - k
        /\ UNCHANGED <<net, consumed, result, left, trunc, segs>>

(* the decoder takes bytes of the message out of the buffer, never more than the message *)
Consume == /\ result = "run" /\ buf > 0 /\ consumed < MsgLen
           /\ \E j \in 1..(IF buf < MsgLen - consumed THEN buf ELSE MsgLen - consumed) :
                 /\ consumed' = consumed + j /\ buf' = buf - j
           /\ UNCHANGED <<net, avail, result, left, trunc, segs>>

Finish == /\ result = "run" /\ consumed = MsgLen
          /\ result' = "ok" /\ left' = buf + avail + Sum(net)
          /\ UNCHANGED <<net, avail, buf, consumed, trunc, segs>>

(* end of stream before the message is complete *)
Eof == /\ result = "run" /\ consumed < MsgLen /\ net = <<>> /\ avail = 0 /\ buf = 0
       /\ result' = "fail"
       /\ UNCHANGED <<net, avail, buf, consumed, left, trunc, segs>>

Next == IF Gen THEN UNCHANGED vars ELSE NetDeliver \/ Fill \/ Consume \/ Finish \/ Eof

Conservation == result = "run" => consumed + buf + avail + Sum(net) = (IF trunc = 0 THEN Total ELSE trunc)
Insensitive == result = "ok" => (trunc = 0 /\ left = Trail)
TruncSafe == trunc # 0 => result # "ok"
Progress == (result = "run") => ENABLED (NetDeliver \/ Fill \/ Consume \/ Finish \/ Eof)

---------------------------------------------------------------------------
(* generator: for every stream length in Lens, every composition; printed once per initial state *)
GInit == /\ \E n \in Lens : segs \in Comps(n)
         /\ net = segs /\ avail = 0 /\ buf = 0 /\ consumed = 0 /\ result = "run" /\ left = 0 /\ trunc = 0
GenLens == 1..12
Emit == PrintT(<<"CASE", ToJson([n |-> Sum(segs), segs |-> segs])>>)
=============================================================================

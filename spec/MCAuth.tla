------------------------------- MODULE MCAuth -------------------------------
EXTENDS Auth
ASSUME NegSound
Kinds == {"http", "socks", "quic"}
VARIABLES tab
TInit == /\ CInit
         /\ tab \in ({<<"neg", x>> : x \in NegCases} \cup {<<"ltls", k, p, c>> : k \in Kinds, p \in Policies, c \in Presented}
                     \cup {<<"ctls", k, s, c, n>> : k \in Kinds, s \in ConnSettings, c \in ServerCerts, n \in ConnNames})
TNext == UNCHANGED <<cvars, tab>>
EmitTab == PrintT(<<"CASE", CASE tab[1] = "neg" -> ToJson([kind |-> "neg", offer |-> tab[2][1], cred |-> tab[2][2], cmd |-> tab[2][3],
                                                         routed_required |-> RoutedCmd(tab[2][1], TRUE, tab[2][2], tab[2][3]),
                                                         routed_optional |-> RoutedCmd(tab[2][1], FALSE, tab[2][2], tab[2][3]),
                                                         method_required |-> Select(tab[2][1], TRUE), method_optional |-> Select(tab[2][1], FALSE)])
                            [] tab[1] = "ltls" -> ToJson([kind |-> "ltls", listener |-> tab[2], policy |-> tab[3], cert |-> tab[4], accept |-> ListenerAccepts(tab[3], tab[4])])
                            [] tab[1] = "ctls" -> ToJson([kind |-> "ctls", connector |-> tab[2], setting |-> tab[3], cert |-> tab[4], name |-> tab[5], establish |-> ConnectorEstablishes(tab[3], tab[4])])>>)
=============================================================================

CONSTANTS
  Tasks <- T_Tasks
  Prog <- ProgTls
  Locks <- MC_Locks
  Peers <- MC_Peers
  StallSets <- L_StallSets
INIT Init
NEXT Next
INVARIANT Inv
CHECK_DEADLOCK FALSE

-------------------------------- MODULE Auth --------------------------------
(* C07: configured peer authentication is enforced on every path.                                         *)
(* (1) SOCKS5 method negotiation + credential check (common/socks.rs PasswordAuth, listeners/socks.rs,     *)
(*     common/auth.rs AuthData::check): Offers is what the client offers, in any order; the request is       *)
(*     routed iff a method acceptable under the configuration is selected and the credentials are valid.    *)
(* (2) Verdict cache of the external command (AuthData::auth_cmd, Cache): a verdict is reused only for the  *)
(*     identical (user, password) pair and only until its timer fires; the truth may change over time.      *)
(* (3) TLS policy tables: listener client-certificate policy x presented certificate; connector            *)
(*     verification settings x certificate of the upstream.                                                *)
EXTENDS Naturals, Sequences, FiniteSets, TLC, Json

(* ---------- (1) negotiation ---------- *)
Methods == {0, 1, 2, 128}                 \* none, gssapi, username/password, private
Creds == {"valid", "wrongpass", "unknownuser", "emptyboth", "emptypass_user", "long255", "nonutf8",
          "listed_emptypass", "listed_prefixpass", "listed_extendedpass"}   \* a listed user with "", a prefix, an extension of the password
ValidCreds == {"valid", "emptypass_user"}   \* alice/secret and carol with an empty password are configured users
RECURSIVE Perms(_)
Perms(S) == IF S = {} THEN {<<>>} ELSE UNION {{<<x>> \o p : p \in Perms(S \ {x})} : x \in S}
OfferSeqs == UNION {Perms(S) : S \in SUBSET Methods}
Select(offer, required) ==
    LET has(m) == \E i \in 1..Len(offer) : offer[i] = m IN
    IF has(0) /\ ~required THEN 0 ELSE IF has(2) THEN 2 ELSE 255
Routed(offer, required, cred) ==
    LET m == Select(offer, required) IN
    IF m = 255 THEN FALSE ELSE IF ~required THEN TRUE ELSE (m = 2 /\ cred \in ValidCreds)
(* the command that follows the negotiation: CONNECT and UDP ASSOCIATE are served (the latter hands out a datagram relay), BIND never is *)
Cmds == {"connect", "udp", "bind"}
RoutedCmd(offer, required, cred, cmd) == cmd # "bind" /\ Routed(offer, required, cred)
NegCases == {<<o, c, m>> \in OfferSeqs \X Creds \X Cmds : TRUE}
(* the invariant the table itself must satisfy: with authentication required nothing is routed without valid credentials *)
NegSound == \A x \in NegCases : RoutedCmd(x[1], TRUE, x[2], x[3]) => x[2] \in ValidCreds

(* ---------- (2) verdict cache ---------- *)
CONSTANTS Pairs, MaxSteps, CacheOn
VARIABLES truth, truth0, cache, clock, hist, steps
(* cache: [Pairs -> [v |-> verdict, exp |-> expiry time] or NoEntry] *)
NoEntry == [v |-> FALSE, exp |-> 0]
cvars == <<truth, truth0, cache, clock, hist, steps>>
Timeout == 2
CInit == /\ truth \in [Pairs -> BOOLEAN] /\ truth0 = truth /\ cache = [p \in Pairs |-> NoEntry] /\ clock = 1 /\ hist = <<>> /\ steps = 0
Cached(p) == cache[p].exp > clock
Attempt(p) == /\ steps < MaxSteps /\ steps' = steps + 1
              /\ IF Cached(p) THEN
                    /\ hist' = Append(hist, [op |-> "attempt", pair |-> p, verdict |-> cache[p].v, src |-> "cache"])
                    /\ UNCHANGED cache
                 ELSE
                    /\ hist' = Append(hist, [op |-> "attempt", pair |-> p, verdict |-> truth[p], src |-> "cmd"])
                    /\ cache' = IF CacheOn THEN [cache EXCEPT ![p] = [v |-> truth[p], exp |-> clock + Timeout]] ELSE cache
              /\ UNCHANGED <<truth, truth0, clock>>
Flip(p) == /\ steps < MaxSteps /\ steps' = steps + 1
           /\ truth' = [truth EXCEPT ![p] = ~@]
           /\ hist' = Append(hist, [op |-> "flip", pair |-> p, verdict |-> ~truth[p], src |-> "-"])
           /\ UNCHANGED <<truth0, cache, clock>>
(* time passes by one unit; entries whose timer fired are evicted (exp <= clock means gone) *)
Wait == /\ steps < MaxSteps /\ steps' = steps + 1 /\ clock' = clock + 1
        /\ hist' = Append(hist, [op |-> "wait", pair |-> "-", verdict |-> FALSE, src |-> "-"])
        /\ UNCHANGED <<truth, truth0, cache>>
CNext == Wait \/ \E p \in Pairs : Attempt(p) \/ Flip(p)
(* a verdict from the cache was produced by the command for the identical pair, not longer ago than the timeout *)
CacheSound == \A i \in 1..Len(hist) : (hist[i].op = "attempt" /\ hist[i].src = "cache") =>
                 \E j \in 1..(i - 1) : /\ hist[j].op = "attempt" /\ hist[j].src = "cmd" /\ hist[j].pair = hist[i].pair
                                       /\ hist[j].verdict = hist[i].verdict
                                       /\ Cardinality({k \in (j + 1)..(i - 1) : hist[k].op = "wait"}) < Timeout
                                       /\ \A k \in (j + 1)..(i - 1) : ~(hist[k].op = "attempt" /\ hist[k].src = "cmd" /\ hist[k].pair = hist[i].pair)
EmitHist == (steps = MaxSteps) => PrintT(<<"CASE", ToJson([kind |-> "hist", truth0 |-> truth0, h |-> hist])>>)

(* ---------- (3) TLS tables ---------- *)
Policies == {"none", "optional", "required"}
Presented == {"nocert", "valid", "foreign"}
ListenerAccepts(pol, cert) ==
    CASE pol = "none" -> TRUE                                 \* no client certificate is requested at all
      [] pol = "optional" -> cert \in {"nocert", "valid"}      \* a presented certificate must verify
      [] pol = "required" -> cert = "valid"
ConnSettings == {"verify_ca", "insecure", "default_roots"}
ServerCerts == {"valid", "foreign", "wrongname"}
(* the upstream may be configured by DNS name or by address literal: the rule is the same (an address that the verifier    *)
(* cannot match against the certificate is a name that does not match)                                                   *)
ConnNames == {"dns", "ip"}
ConnectorEstablishes(cs, cert) ==
    CASE cs = "insecure" -> TRUE
      [] cs = "verify_ca" -> cert = "valid"
      [] cs = "default_roots" -> FALSE                          \* a private test CA is never in the public root set
=============================================================================

CONSTANTS
  MsgLen = 1
  Trail = 0
  Cap = 1
  Lens <- GenLens
  Gen = TRUE
INIT GInit
NEXT Next
INVARIANT Emit
CHECK_DEADLOCK FALSE

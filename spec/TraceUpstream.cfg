CONSTANTS
  Conns <- TConns
  Kind <- TKind
  UpOf <- TUpOf
  Upstreams <- TUpstreams
  IdleMax = 440
  IdleTimer = TRUE
  CheckClosed = TRUE
  MaxTime = 100000000
  MaxFaults = 100000000
SPECIFICATION TraceSpec
INVARIANT CleanClose
CONSTRAINT Track
POSTCONDITION TraceAccepted
CHECK_DEADLOCK FALSE

\* 3 connections, every outcome, history bound 1 (smaller than the burst); HistSize 0 and 2 in MCLife0 / MCLife2
CONSTANTS
  Conns = {1, 2, 3}
  HistSize = 1
INIT Init
NEXT Next
INVARIANT Inv
CHECK_DEADLOCK FALSE

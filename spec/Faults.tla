------------------------------- MODULE Faults -------------------------------
(* C05: grammar-directed hostile inputs for every decoder a remote peer can feed (client side of     *)
(* every listener, upstream side of every connector, datagram peers).  A decoder's message is a       *)
(* sequence of typed fields; corruption operators apply to one field.  TLC enumerates every            *)
(* (decoder, field, operator, parameter) that is applicable; the harness instantiates each as bytes    *)
(* (plus seeded random byte-level mutations around it) and feeds it to the real decoder in-process     *)
(* under catch_unwind with a watchdog, and to real proxy processes followed by liveness probes.        *)
(* Property: the outcome of every case is Ok / Error / Eof - never Crash or Hang - and only the         *)
(* offending connection is affected (process level: Life.tla HandshakeFail touches one connection).     *)
EXTENDS Naturals, Sequences, FiniteSets, TLC, Json

(* field kinds: "enum" one byte from a small set; "len" a length byte / word governing a later field;  *)
(* "bytes" opaque bytes; "text" free text; "num" decimal number as text; "u16" / "u32" binary numbers;   *)
(* "delim" a delimiter (SP, CRLF, NUL, ':')                                                             *)
F(n, k) == [name |-> n, kind |-> k]
Grammar == [
  http_req   |-> <<F("method", "text"), F("sp1", "delim"), F("target", "text"), F("sp2", "delim"), F("version", "text"), F("crlf1", "delim"),
                   F("hname", "text"), F("colon", "delim"), F("hvalue", "text"), F("crlf2", "delim"), F("end", "delim")>>,
  http_resp  |-> <<F("version", "text"), F("sp1", "delim"), F("code", "num"), F("sp2", "delim"), F("reason", "text"), F("crlf1", "delim"),
                   F("sid_name", "text"), F("colon", "delim"), F("sid_value", "num"), F("crlf2", "delim"), F("end", "delim")>>,
  socks5_req |-> <<F("ver", "enum"), F("nmethods", "len"), F("methods", "bytes"), F("aver", "enum"), F("ulen", "len"), F("user", "bytes"),
                   F("plen", "len"), F("pass", "bytes"), F("ver2", "enum"), F("cmd", "enum"), F("rsv", "enum"), F("atyp", "enum"),
                   F("alen", "len"), F("addr", "bytes"), F("port", "u16")>>,
  socks4_req |-> <<F("ver", "enum"), F("cmd", "enum"), F("port", "u16"), F("ip", "u32"), F("userid", "bytes"), F("nul1", "delim"),
                   F("domain", "bytes"), F("nul2", "delim")>>,
  socks5_method |-> <<F("ver", "enum"), F("method", "enum")>>,      \* the upstream's answer to the connector's method offer
  socks5_resp |-> <<F("ver", "enum"), F("rep", "enum"), F("rsv", "enum"), F("atyp", "enum"), F("alen", "len"), F("addr", "bytes"), F("port", "u16")>>,
  socks4_resp |-> <<F("vn", "enum"), F("cd", "enum"), F("port", "u16"), F("ip", "u32")>>,
  socks_udp  |-> <<F("rsv", "u16"), F("frag", "enum"), F("atyp", "enum"), F("alen", "len"), F("addr", "bytes"), F("port", "u16"), F("payload", "bytes")>>,
  rpfm       |-> <<F("magic", "u32"), F("sid", "u32"), F("attrlen", "len"), F("bodylen", "len"), F("tag", "enum"), F("tlen", "len"),
                   F("host", "bytes"), F("port", "u16"), F("body", "bytes")>>,
  frag       |-> <<F("id", "u16"), F("total", "len"), F("seq", "len"), F("payload", "bytes")>> ]

Decoders == DOMAIN Grammar

(* operators and the field kinds they apply to; the parameter set of each *)
Ops == [
  trunc_before |-> [kinds |-> {"enum", "len", "bytes", "text", "num", "u16", "u32", "delim"}, params |-> {"-"}],
  trunc_inside |-> [kinds |-> {"bytes", "text", "num", "u16", "u32"}, params |-> {"-"}],
  drop_field   |-> [kinds |-> {"delim", "enum", "len"}, params |-> {"-"}],
  len_set      |-> [kinds |-> {"len"}, params |-> {"0", "1", "127", "128", "255", "more", "less"}],
  enum_set     |-> [kinds |-> {"enum"}, params |-> {"0", "2", "6", "128", "255"}],
  num_text     |-> [kinds |-> {"num"}, params |-> {"empty", "alpha", "negative", "huge", "u32plus1", "float", "spaces"}],
  bin_set      |-> [kinds |-> {"u16", "u32"}, params |-> {"0", "max", "msb"}],
  inflate      |-> [kinds |-> {"bytes", "text"}, params |-> {"300", "70000"}],
  bytes_set    |-> [kinds |-> {"bytes", "text"}, params |-> {"empty", "nul", "crlf", "nonutf8", "space"}],
  repeat       |-> [kinds |-> {"delim"}, params |-> {"2", "1000"}] ]

Cases == {<<d, i, o, p>> \in Decoders \X (1..20) \X (DOMAIN Ops) \X {"-", "0", "1", "2", "6", "127", "128", "255", "more", "less", "empty", "alpha",
                                                                  "negative", "huge", "u32plus1", "float", "spaces", "max", "msb", "300", "70000",
                                                                  "nul", "crlf", "nonutf8", "space", "1000"} :
            /\ i <= Len(Grammar[d]) /\ Grammar[d][i].kind \in Ops[o].kinds /\ p \in Ops[o].params}

Outcomes == {"ok", "err", "eof"}                      \* allowed; "panic", "hang" are violations
Allowed(outcome) == outcome \in Outcomes

VARIABLE c
Init == c \in Cases
Next == UNCHANGED c
Emit == PrintT(<<"CASE", ToJson([dec |-> c[1], idx |-> c[2], field |-> Grammar[c[1]][c[2]].name, kind |-> Grammar[c[1]][c[2]].kind,
                                 op |-> c[3], param |-> c[4]])>>)
(* every decoder's every field has at least one applicable operator *)
Covered == \A d \in Decoders : \A i \in 1..Len(Grammar[d]) : \E o \in DOMAIN Ops : Grammar[d][i].kind \in Ops[o].kinds
ASSUME Covered
=============================================================================

CONSTANTS
  MaxDepth = 3
  DeepOps <- RepOps
  Forks = FALSE
INIT Init
NEXT Next
INVARIANT RenderSane
INVARIANT Emit
INVARIANT EmitF
CHECK_DEADLOCK FALSE

-------------------------------- MODULE Life --------------------------------
(* Connection lifecycle and registry (src/context.rs: create_context, set_state, ContextRefOps,    *)
(* Drop, gc_thread; src/main.rs process_request; listener callbacks): properties C16 (every         *)
(* connection accounted for exactly once, truthful state sequence, bounded newest-first history)     *)
(* and C06 (the client is told "established" iff and after the upstream is; every other outcome gets *)
(* exactly one failure reply; never both).                                                          *)
(*                                                                                                 *)
(*  Create(c)        create_context: id allocated, ClientConnected recorded, listed as alive       *)
(*  HandshakeFail(c,k) listener could not obtain a request (k: "garbage" | "badauth" | "badcmd")   *)
(*  Enqueue(c)       ClientRequested                                                               *)
(*  Refuse(c)        deny rule / no rule / feature gate: on_error -> ErrorOccured + failure reply  *)
(*  ConnectBegin(c)  ServerConnecting, connector.connect starts                                    *)
(*  ConnectFail(c)   connect returned Err: ErrorOccured + failure reply                            *)
(*  ConnectOk(c)     upstream established                                                          *)
(*  OnConnect(c)     Connected recorded, "established" reply written                              *)
(*  HalfLog(c,h)     ClientShutdown / ServerShutdown                                              *)
(*  RelayOk(c)       Terminated                   RelayErr(c)  ErrorOccured (no reply: tunnel data)*)
(*  Drop(c)          last reference gone: props pushed on gc_list                                  *)
(*  Gc               gc_thread tick: every dropped context gets one access-log line, leaves the    *)
(*                   alive table and is pushed to the front of the history, which is then truncated *)
EXTENDS Naturals, Sequences, FiniteSets, TLC

CONSTANTS Conns, HistSize

VARIABLES ph, log, upUp, replies, alive, gcq, history, lines, created
vars == <<ph, log, upUp, replies, alive, gcq, history, lines, created>>

Init == /\ ph = [c \in Conns |-> "none"] /\ log = [c \in Conns |-> <<>>] /\ upUp = [c \in Conns |-> FALSE]
        /\ replies = [c \in Conns |-> <<>>] /\ alive = {} /\ gcq = <<>> /\ history = <<>>
        /\ lines = [c \in Conns |-> 0] /\ created = <<>>

Push(c, s) == log' = [log EXCEPT ![c] = Append(@, s)]
Reply(c, r) == replies' = [replies EXCEPT ![c] = Append(@, r)]

Create(c) == /\ ph[c] = "none"
             /\ ph' = [ph EXCEPT ![c] = "new"] /\ Push(c, "ClientConnected")
             /\ alive' = alive \cup {c} /\ created' = Append(created, c)
             /\ UNCHANGED <<upUp, replies, gcq, history, lines>>
HandshakeFail(c, k) == /\ ph[c] = "new"
                       /\ ph' = [ph EXCEPT ![c] = "error"] /\ Push(c, "ErrorOccured")
                       /\ IF k = "garbage" THEN UNCHANGED replies ELSE Reply(c, "fail")
                       /\ UNCHANGED <<upUp, alive, gcq, history, lines, created>>
Enqueue(c) == /\ ph[c] = "new"
              /\ ph' = [ph EXCEPT ![c] = "requested"] /\ Push(c, "ClientRequested")
              /\ UNCHANGED <<upUp, replies, alive, gcq, history, lines, created>>
Refuse(c) == /\ ph[c] = "requested"
             /\ ph' = [ph EXCEPT ![c] = "error"] /\ Push(c, "ErrorOccured") /\ Reply(c, "fail")
             /\ UNCHANGED <<upUp, alive, gcq, history, lines, created>>
ConnectBegin(c) == /\ ph[c] = "requested"
                   /\ ph' = [ph EXCEPT ![c] = "connecting"] /\ Push(c, "ServerConnecting")
                   /\ UNCHANGED <<upUp, replies, alive, gcq, history, lines, created>>
ConnectFail(c) == /\ ph[c] = "connecting"
                  /\ ph' = [ph EXCEPT ![c] = "error"] /\ Push(c, "ErrorOccured") /\ Reply(c, "fail")
                  /\ UNCHANGED <<upUp, alive, gcq, history, lines, created>>
ConnectOk(c) == /\ ph[c] = "connecting"
                /\ ph' = [ph EXCEPT ![c] = "up"] /\ upUp' = [upUp EXCEPT ![c] = TRUE]
                /\ UNCHANGED <<log, replies, alive, gcq, history, lines, created>>
OnConnect(c) == /\ ph[c] = "up"
                /\ ph' = [ph EXCEPT ![c] = "connected"] /\ Push(c, "Connected") /\ Reply(c, "ok")
                /\ UNCHANGED <<upUp, alive, gcq, history, lines, created>>
Halves == {"ClientShutdown", "ServerShutdown"}
HalfLog(c, h) == /\ ph[c] = "connected" /\ h \in Halves /\ h \notin {log[c][i] : i \in 1..Len(log[c])}
                 /\ Push(c, h)
                 /\ UNCHANGED <<ph, upUp, replies, alive, gcq, history, lines, created>>
RelayOk(c) == /\ ph[c] = "connected" /\ Halves \subseteq {log[c][i] : i \in 1..Len(log[c])}
              /\ ph' = [ph EXCEPT ![c] = "finished"] /\ Push(c, "Terminated")
              /\ UNCHANGED <<upUp, replies, alive, gcq, history, lines, created>>
RelayErr(c) == /\ ph[c] = "connected"
               /\ ph' = [ph EXCEPT ![c] = "error"] /\ Push(c, "ErrorOccured")
               /\ UNCHANGED <<upUp, replies, alive, gcq, history, lines, created>>
Terminal(c) == ph[c] \in {"finished", "error"}
Drop(c) == /\ Terminal(c) /\ c \in alive /\ c \notin {gcq[i] : i \in 1..Len(gcq)}
           /\ gcq' = Append(gcq, c)
           /\ UNCHANGED <<ph, log, upUp, replies, alive, history, lines, created>>
RECURSIVE PushAll(_, _)
PushAll(h, q) == IF q = <<>> THEN h ELSE PushAll(<<Head(q)>> \o h, Tail(q))
Trunc(h) == IF Len(h) > HistSize THEN SubSeq(h, 1, HistSize) ELSE h
Gc == /\ gcq # <<>>
      /\ lines' = [c \in Conns |-> IF c \in {gcq[i] : i \in 1..Len(gcq)} THEN lines[c] + 1 ELSE lines[c]]
      /\ alive' = alive \ {gcq[i] : i \in 1..Len(gcq)}
      /\ history' = Trunc(PushAll(history, gcq))
      /\ gcq' = <<>>
      /\ UNCHANGED <<ph, log, upUp, replies, created>>

Next == \/ Gc
        \/ \E c \in Conns : Create(c) \/ Enqueue(c) \/ Refuse(c) \/ ConnectBegin(c) \/ ConnectFail(c) \/ ConnectOk(c)
                            \/ OnConnect(c) \/ RelayOk(c) \/ RelayErr(c) \/ Drop(c)
                            \/ (\E k \in {"garbage", "badauth", "badcmd"} : HandshakeFail(c, k))
                            \/ (\E h \in Halves : HalfLog(c, h))
Spec == Init /\ [][Next]_vars

---------------------------------------------------------------------------
InSeq(s, x) == \E i \in 1..Len(s) : s[i] = x
Collected(c) == lines[c] > 0
(* C16 *)
AliveExactly == \A c \in Conns : (c \in alive) <=> (ph[c] # "none" /\ ~Collected(c))
OnceEach == \A c \in Conns : lines[c] <= 1 /\ Cardinality({i \in 1..Len(history) : history[i] = c}) <= 1
HistoryBound == Len(history) <= HistSize /\ \A i \in 1..Len(history) : Collected(history[i])
(* the recorded state sequence is a word of   Connected? ... exactly one terminal state at the end *)
Word == {<<"ClientConnected">>, <<"ClientConnected", "ClientRequested">>,
         <<"ClientConnected", "ClientRequested", "ServerConnecting">>,
         <<"ClientConnected", "ClientRequested", "ServerConnecting", "Connected">>}
IsPrefixOf(p, s) == Len(p) <= Len(s) /\ SubSeq(s, 1, Len(p)) = p
LogShape == \A c \in Conns : ph[c] # "none" =>
   LET l == log[c]  n == Len(l)
       nterm == Cardinality({i \in 1..n : l[i] \in {"Terminated", "ErrorOccured"}}) IN
   /\ l[1] = "ClientConnected"
   /\ nterm = (IF Terminal(c) THEN 1 ELSE 0)
   /\ (Terminal(c) => l[n] \in {"Terminated", "ErrorOccured"})
   /\ (InSeq(l, "Terminated") => (InSeq(l, "Connected") /\ InSeq(l, "ClientShutdown") /\ InSeq(l, "ServerShutdown")))
   /\ \A i \in 1..n : l[i] \in Halves => \E j \in 1..(i - 1) : l[j] = "Connected"
CollectedAreTerminal == \A c \in Conns : (Collected(c) \/ InSeq(gcq, c)) => Terminal(c)
(* C06 *)
ReplyIffUp == \A c \in Conns : InSeq(replies[c], "ok") => upUp[c]
AtMostOneReply == \A c \in Conns : Len(replies[c]) <= 1
FailureGetsReply == \A c \in Conns : (ph[c] = "error" /\ ~InSeq(log[c], "Connected") /\ InSeq(log[c], "ClientRequested")) => replies[c] = <<"fail">>
EstablishedGetsOk == \A c \in Conns : InSeq(log[c], "Connected") => replies[c] = <<"ok">>
Inv == AliveExactly /\ OnceEach /\ HistoryBound /\ LogShape /\ CollectedAreTerminal /\ ReplyIffUp /\ AtMostOneReply
       /\ FailureGetsReply /\ EstablishedGetsOk
=============================================================================

\* 3 connections (http that may stall, socks that may stall, a fresh http one), every API handler, gc; every stall set
CONSTANTS
  Tasks <- MC_Tasks
  Prog <- ProgAsIs
  Locks <- MC_Locks
  Peers <- MC_Peers
  StallSets <- MC_StallSets
INIT Init
NEXT Next
INVARIANT Inv
CHECK_DEADLOCK FALSE

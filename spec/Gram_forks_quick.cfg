CONSTANTS
  MaxDepth = 3
  DeepOps <- RepOps
  Forks = TRUE
INIT Init
NEXT Next
INVARIANT RenderSane
INVARIANT Emit
CHECK_DEADLOCK FALSE

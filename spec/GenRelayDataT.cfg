\* C01 focus: data in both directions, early data, sizes 1..5, one close at the end
CONSTANTS
  MaxLen = 5
  Sizes = {1, 2, 5}
  AllowRst = FALSE
INIT Init
NEXT Next
INVARIANT Emit
CHECK_DEADLOCK FALSE

\* exhaustive check of the design: all interleavings of 4 frames, 9 junk datagrams, duplicates, ticks
CONSTANTS
  Frames <- MC_Frames
  NFrag <- MC_NFrag
  Wid <- MC_Wid
  Junk <- MC_Junk
  Timeout = 2
  MaxOps = 5
  MaxClock = 3
  MaxDup = 2
INIT Init
NEXT Next
VIEW view
INVARIANT Inv
CHECK_DEADLOCK FALSE

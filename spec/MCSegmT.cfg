\* every segmentation and truncation of a 6-byte message + 4 trailing bytes, read-ahead 3
CONSTANTS
  MsgLen = 8
  Trail = 5
  Cap = 4
  Lens = {1}
  Gen = FALSE
INIT Init
NEXT Next
INVARIANT Conservation
INVARIANT Insensitive
INVARIANT TruncSafe
INVARIANT Progress
CHECK_DEADLOCK FALSE

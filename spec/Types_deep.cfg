CONSTANTS
  MaxDepth = 6
  RepAtoms <- RepSmall
  Wide = TRUE
INIT Init
NEXT Next
INVARIANT RefSound
INVARIANT Emit
CHECK_DEADLOCK FALSE

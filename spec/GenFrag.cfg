\* behaviour generator: same model, history visible, one CASE line per behaviour of MaxOps calls
CONSTANTS
  Frames <- MC_Frames
  NFrag <- MC_NFrag
  Wid <- MC_Wid
  Junk <- MC_Junk
  Timeout = 2
  MaxOps = 4
  MaxClock = 0
  MaxDup = 2
INIT Init
NEXT GenNext
INVARIANT Emit
CHECK_DEADLOCK FALSE

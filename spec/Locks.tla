------------------------------- MODULE Locks -------------------------------
(* C14: who holds which lock while waiting for which peer.  Locks of the proxy:                      *)
(*   alive  tokio Mutex   context registry (context.rs create_context, gc_thread, metrics.rs /live)  *)
(*   hist   tokio Mutex   history list      (gc_thread, /history)                                    *)
(*   rules  tokio RwLock  rule list         (process_request, /rules GET and POST)                   *)
(*   ctx[c] tokio RwLock  one per connection (listeners, process_request, callbacks, copy_bidi, /live)*)
(* tokio's locks are fair FIFO queues; a queued writer blocks every later reader.                    *)
(* A task is a program: a sequence of  <<"acq", lock, mode>>, <<"rel", lock>>, <<"peer", p>>  steps   *)
(* ("peer": wait for bytes from / room towards peer p).  Any subset of the peers may stall forever.   *)
(* Every step advances a program counter or a queue position: the state graph is finite and acyclic,  *)
(* so the property is an invariant on terminal states:                                               *)
(*   NoStallPropagation: when nothing can move any more, every task that does not itself wait for a   *)
(*   stalled peer has finished.                                                                      *)
(* The programs are transcribed from the code (references in MCLocks.tla); the binding to the running *)
(* proxy is black-box: with clients stalled at every offset of their handshake and tunnels blocked on *)
(* a slow peer, every API endpoint and a fresh connection on every listener must complete (C14 check). *)
EXTENDS Naturals, Sequences, FiniteSets, TLC

CONSTANTS Tasks,      \* task names
          Prog,       \* [Tasks -> Seq(step)]
          Locks,      \* lock names
          Peers,      \* peer names
          StallSets   \* set of subsets of Peers that may be stalled (each explored)

VARIABLES pc,         \* [Tasks -> Nat] next step (1-based); Len+1 = done
          queue,      \* [Locks -> Seq([t, m])] FIFO of waiting requests
          holders,    \* [Locks -> set of [t, m]]
          stalled     \* the chosen stalled set
vars == <<pc, queue, holders, stalled>>

Done(t) == pc[t] > Len(Prog[t])
Step(t) == Prog[t][pc[t]]

Init == /\ pc = [t \in Tasks |-> 1] /\ queue = [l \in Locks |-> <<>>] /\ holders = [l \in Locks |-> {}]
        /\ stalled \in StallSets

Waiting(t) == \E l \in Locks : \E i \in 1..Len(queue[l]) : queue[l][i].t = t

(* a task reaches an acquire step: it joins the lock's queue *)
Request(t) == /\ ~Done(t) /\ Step(t)[1] = "acq" /\ ~Waiting(t)
              /\ ~(\E h \in holders[Step(t)[2]] : h.t = t)
              /\ queue' = [queue EXCEPT ![Step(t)[2]] = Append(@, [t |-> t, m |-> Step(t)[3]])]
              /\ UNCHANGED <<pc, holders, stalled>>
(* the head of a queue is granted when compatible with the current holders *)
Compatible(l, m) == holders[l] = {} \/ (m = "r" /\ \A h \in holders[l] : h.m = "r")
Grant(l) == /\ queue[l] # <<>> /\ Compatible(l, Head(queue[l]).m)
            /\ holders' = [holders EXCEPT ![l] = @ \cup {Head(queue[l])}]
            /\ queue' = [queue EXCEPT ![l] = Tail(@)]
            /\ pc' = [pc EXCEPT ![Head(queue[l]).t] = @ + 1]
            /\ UNCHANGED stalled
Release(t) == /\ ~Done(t) /\ Step(t)[1] = "rel"
              /\ holders' = [holders EXCEPT ![Step(t)[2]] = {h \in @ : h.t # t}]
              /\ pc' = [pc EXCEPT ![t] = @ + 1]
              /\ UNCHANGED <<queue, stalled>>
PeerIO(t) == /\ ~Done(t) /\ Step(t)[1] = "peer" /\ Step(t)[2] \notin stalled
             /\ pc' = [pc EXCEPT ![t] = @ + 1]
             /\ UNCHANGED <<queue, holders, stalled>>

Next == (\E t \in Tasks : Request(t) \/ Release(t) \/ PeerIO(t)) \/ (\E l \in Locks : Grant(l))
Spec == Init /\ [][Next]_vars

(* tasks that wait for a stalled peer themselves: they are allowed to hang *)
WaitsOnStalled(t) == \E i \in 1..Len(Prog[t]) : Prog[t][i][1] = "peer" /\ Prog[t][i][2] \in stalled
Healthy == {t \in Tasks : ~WaitsOnStalled(t)}
Quiescent == ~ENABLED Next
NoStallPropagation == Quiescent => \A t \in Healthy : Done(t)
(* locks are used consistently *)
MutualExclusion == \A l \in Locks : \A h1, h2 \in holders[l] : (h1 # h2) => (h1.m = "r" /\ h2.m = "r")
Inv == NoStallPropagation /\ MutualExclusion
=============================================================================
